#!/bin/bash
# ./soak.sh <first-seed> <last-seed> [tier]  — false-alarm soak: every registered check, many VERIF_SEEDs.
# Meant for `vp run`: builds into its own target dir, writes evidence/replays inside the snapshot.
cd "$(dirname "$0")"
export SIM_TARGET_DIR="${SIM_TARGET_DIR:-$PWD/target-soak}" VERIF_DIR="$PWD"
TIER="${3:-quick}"; bad=0
# build ONCE from /repo as it is now; later edits of /repo (e.g. mutants being tried) must not leak in
./build.sh || exit 2
BIN="$SIM_TARGET_DIR/release/simcheck"
for s in $(seq "$1" "$2"); do
  for p in C01 C02 C03 C04 C05 C06 C09 C10 C11 C12 C13 C20; do
    out=$(VERIF_SEED=$s "$BIN" run --property $p --tier $TIER ${SOAK_MAX_SECONDS:+--max-seconds $SOAK_MAX_SECONDS} 2>&1); rc=$?
    echo "$out" | tail -1
    if [ $rc -ne 0 ]; then bad=$((bad+1)); echo "SOAK seed=$s $p rc=$rc"; echo "$out" | grep -E "^violation|VIOLATION" | cut -c1-600; fi
  done
  echo "soak: seed $s done (alarms so far: $bad)"
done
echo "SOAK finished: alarms=$bad"
