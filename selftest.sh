#!/bin/bash
# ./selftest.sh determinism [runs]   every engine: N seeds executed in three separate
#                                    processes (16, 16 and 3 worker threads); per-run digests
#                                    (verdict, steps, interleaving hashes) must be identical
# ./selftest.sh mutants              apply every patch in /verif/mutants and /verif/seeded to
#                                    /repo (reverted afterwards) and run the owning quick checks
set -u
cd "$(dirname "$0")"
./build.sh || exit 2
BIN="${SIM_TARGET_DIR:-/verif/target}/release/simcheck"
case "${1:-}" in
determinism)
  N="${2:-400}"; rc=0
  for p in C01 C02 C03 C04 C05 C06 C09 C10 C11 C12 C13 C20; do
    a=$(SIM_THREADS=16 $BIN digest --property $p --runs $N | md5sum)
    b=$(SIM_THREADS=16 $BIN digest --property $p --runs $N | md5sum)
    c=$(SIM_THREADS=3  $BIN digest --property $p --runs $N | md5sum)
    if [ "$a" = "$b" ] && [ "$a" = "$c" ]; then echo "determinism $p: $N seeds x 3 processes identical"; else echo "determinism $p: DIVERGED"; rc=1; fi
  done
  exit $rc;;
mutants)
  mkdir -p /tmp/mutant-verif; cp /verif/known_findings.json /tmp/mutant-verif/
  for f in /verif/mutants/*.diff; do
    props=$(head -1 "$f" | sed -n 's/^# checks: //p')
    [ -z "$props" ] && props=$(basename "$f" | cut -d- -f1 | tr a-z A-Z)
    SKIP_TESTS=${SKIP_TESTS:-1} ./mutant.sh "$f" $props
  done
  for d in /verif/seeded/*/; do
    props=$(python3 -c "import json,sys; m=json.load(open('$d/meta.json')); print(' '.join(sorted({x.split()[2] for x in m.get('checks_quick_results',[]) if x.startswith('MUTANT')})))")
    SKIP_TESTS=1 ./mutant.sh "$d/patch.diff" $props | sed "s|patch.diff|$(basename $d)|"
  done;;
benign)
  # behaviour-preserving refactors written by sub-agents: every check must stay silent
  mkdir -p /tmp/mutant-verif; cp /verif/known_findings.json /tmp/mutant-verif/
  for d in /verif/benign/*/; do ./benign.sh "$d/patch.diff" | grep BENIGN; done;;
*) echo "usage: $0 determinism [runs] | mutants | benign"; exit 2;;
esac
