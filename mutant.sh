#!/bin/bash
# ./mutant.sh <patch-file> <property> [more properties...]
# applies a patch to /repo's working tree, confirms the guard-off test suite still
# passes, runs the quick checks, and reverts the tree. For sensitivity self-tests only.
set -u
P="$1"; shift
cd /repo || exit 2
if ! git apply --check "$P" 2>/dev/null; then echo "MUTANT $P: patch does not apply"; exit 2; fi
git apply "$P"
trap 'git -C /repo checkout -- . ; /verif/build.sh' EXIT   # never leave a mutated binary behind
if [ "${SKIP_TESTS:-0}" != "1" ]; then
  if ! CARGO_NET_OFFLINE=true cargo test --workspace --no-fail-fast --offline >/tmp/mutant-test.log 2>&1; then
    echo "MUTANT $P: existing tests FAIL with this patch (not a valid mutant)"; grep -E "^test .* FAILED|panicked" /tmp/mutant-test.log | head -5; exit 3
  fi
fi
cd /verif
for prop in "$@"; do
  out=$(VERIF_DIR=/tmp/mutant-verif ./check.sh "$prop" quick 2>&1); rc=$?
  sig=$(echo "$out" | grep -m1 "^violation: C" | cut -c1-160)
  echo "MUTANT $(basename $P) $prop rc=$rc $sig"
done
