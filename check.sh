#!/bin/bash
# ./check.sh <property-id> quick|thorough     run the check (rebuilds from /repo first)
# ./check.sh replay <file>                    re-execute a replay file
# exit 0: held on everything explored; 1: VIOLATION line printed; 2: harness/build error
set -u
cd "$(dirname "$0")"
./build.sh || exit 2
BIN="${SIM_TARGET_DIR:-/verif/target}/release/simcheck"
if [ "${1:-}" = "replay" ]; then
  exec "$BIN" replay "$2"
fi
PROP="$1"; TIER="${2:-${VERIF_TIER:-quick}}"; shift; shift || true
exec "$BIN" run --property "$PROP" --tier "$TIER" "$@"
