#!/bin/bash
# ./seedcheck.sh <prop> <A|B> <check-props...>
# Confirms a seeded change in its scratch worktree (demo fails with it, passes without,
# existing tests pass with it), runs the registered quick checks against it in /repo
# (applied and reverted), and files it under /verif/seeded/.
set -u
ID="$1"; V="$2"; shift; shift
WT=/tmp/seed-$ID; OUT=/tmp/seed-$ID-out/$V
NAME="$ID-$V"
[ -f "$OUT/patch.diff" ] || { echo "no patch for $NAME"; exit 2; }
cd "$WT" || exit 2
git checkout -q -- . ; rm -rf tests/demo.rs
mkdir -p tests; cp "$OUT/demo.rs" tests/demo.rs
export CARGO_NET_OFFLINE=true
# without the change
timeout 900 cargo test --offline --test demo >/tmp/seed-$NAME-clean.log 2>&1; RC_CLEAN=$?
git apply "$OUT/patch.diff" || { echo "$NAME: patch does not apply in worktree"; exit 2; }
timeout 900 cargo test --offline --test demo >/tmp/seed-$NAME-mut.log 2>&1; RC_MUT=$?
timeout 900 cargo test --offline --lib >/tmp/seed-$NAME-suite.log 2>&1; RC_SUITE=$?
if [ $RC_SUITE -ne 0 ]; then
  # the suite has wall-clock-dependent tests (general_ops, baked_similarity) that flake under load: retry twice
  sleep 5; timeout 900 cargo test --offline --lib >/tmp/seed-$NAME-suite.log 2>&1; RC_SUITE=$?
  if [ $RC_SUITE -ne 0 ]; then sleep 5; timeout 900 cargo test --offline --lib -- --test-threads 4 >/tmp/seed-$NAME-suite.log 2>&1; RC_SUITE=$?; fi
fi
SUITE=$(grep -E "^test result" /tmp/seed-$NAME-suite.log | head -1)
git checkout -q -- . ; rm -rf tests
echo "SEED $NAME: demo without change rc=$RC_CLEAN (want 0); with change rc=$RC_MUT (want !=0); existing suite with change rc=$RC_SUITE [$SUITE]"
RES=""
for p in "$@"; do
  r=$(SKIP_TESTS=1 /verif/mutant.sh "$OUT/patch.diff" "$p" | tail -1)
  echo "  $r"
  RES="$RES | $r"
done
D=/verif/seeded/$NAME; mkdir -p "$D"
cp "$OUT/patch.diff" "$D/patch.diff"; cp "$OUT/demo.rs" "$D/demo.rs"
python3 - "$OUT/meta.json" "$D/meta.json" "$RC_CLEAN" "$RC_MUT" "$RC_SUITE" "$SUITE" "$RES" <<'PY'
import json,sys
src,dst,rc_clean,rc_mut,rc_suite,suite,res=sys.argv[1:8]
try: m=json.load(open(src))
except Exception as e: m={"note":"agent meta unreadable: %s"%e}
m["confirmed_by_me"]={"demo_without_change_rc":int(rc_clean),"demo_with_change_rc":int(rc_mut),"existing_suite_with_change_rc":int(rc_suite),"existing_suite":suite,
  "what_i_ran":"in the scratch worktree: cargo test --offline --test demo (clean, then with patch), cargo test --offline --lib with patch; then /verif/mutant.sh <patch> <properties> (git apply in /repo, ./check.sh <id> quick, git checkout -- .)"}
m["checks_quick_results"]=[x.strip() for x in res.split("|") if x.strip()]
json.dump(m,open(dst,"w"),indent=1)
PY
