//! Shared vocabulary of all engines: violations, outcomes, schedule plans.

use crate::exec::{self, Abort, ExecCfg, ExecResult};
use crate::sched::{mix, Mode, SchedSpec};
use serde::{Deserialize, Serialize};
use serde_json::Value;
use std::collections::BTreeMap;

#[derive(Clone, Debug, Serialize, Deserialize, PartialEq)]
pub struct Violation {
    pub property: String,
    /// oracle clause id, stable across runs
    pub clause: String,
    /// operation kind the clause was evaluated on
    pub op: String,
    /// discriminating detail (kept coarse so that minimisation preserves it)
    pub detail: String,
    /// free text for humans; not part of the signature
    pub msg: String,
}

impl Violation {
    pub fn new(property: &str, clause: &str, op: &str, detail: &str, msg: String) -> Self {
        Violation {
            property: property.into(),
            clause: clause.into(),
            op: op.into(),
            detail: detail.into(),
            msg,
        }
    }
    pub fn sig(&self) -> String {
        format!(
            "{}/{}/{}/{}",
            self.property, self.clause, self.op, self.detail
        )
    }
}

#[derive(Clone, Debug, Serialize, Deserialize)]
pub struct ExecRecord {
    pub spec: SchedSpec,
    /// full decision list (task id per scheduling step) when tracing was on
    pub trace: Vec<u32>,
    pub defaults: Vec<u32>,
    pub steps: u64,
}

#[derive(Clone, Debug, Default)]
pub struct Stats {
    pub execs: u64,
    pub steps: u64,
    pub context_switches: u64,
    pub randoms: u64,
    pub events: u64,
    pub max_tasks: u32,
    pub ops: u64,
    pub epochs: u64,
    pub ilv_hashes: Vec<u64>,
    pub delivery_hashes: Vec<u64>,
    pub probes: BTreeMap<String, u64>,
    pub faults: BTreeMap<String, u64>,
    pub nontrivial: bool,
}

impl Stats {
    pub fn absorb_exec(&mut self, r: &ExecResult) {
        self.execs += 1;
        self.steps += r.steps;
        self.context_switches += r.context_switches;
        self.randoms += r.randoms;
        self.events += r.n_events;
        self.max_tasks = self.max_tasks.max(r.tasks);
        self.ilv_hashes.push(r.ilv_hash);
        for (k, v) in &r.probes {
            *self.probes.entry(k.to_string()).or_insert(0) += v;
        }
        if r.stall_fired > 0 {
            *self.faults.entry("stall".into()).or_insert(0) += 1;
        }
        if r.pct_changes > 0 {
            *self.faults.entry("pct-priority-change".into()).or_insert(0) += r.pct_changes;
        }
    }
    pub fn probe(&mut self, k: &str, n: u64) {
        *self.probes.entry(k.to_string()).or_insert(0) += n;
    }
    pub fn fault(&mut self, k: &str, n: u64) {
        *self.faults.entry(k.to_string()).or_insert(0) += n;
    }
    pub fn merge(&mut self, o: &Stats) {
        self.execs += o.execs;
        self.steps += o.steps;
        self.context_switches += o.context_switches;
        self.randoms += o.randoms;
        self.events += o.events;
        self.max_tasks = self.max_tasks.max(o.max_tasks);
        self.ops += o.ops;
        self.epochs += o.epochs;
        for (k, v) in &o.probes {
            *self.probes.entry(k.clone()).or_insert(0) += v;
        }
        for (k, v) in &o.faults {
            *self.faults.entry(k.clone()).or_insert(0) += v;
        }
    }
}

#[derive(Debug, Default)]
pub struct Outcome {
    pub violation: Option<Violation>,
    pub stats: Stats,
    pub execs: Vec<ExecRecord>,
    /// a strict replay did not follow its recorded schedule (harness error)
    pub diverged: bool,
}

/// How executions of one evaluation get their schedules: derived from `seed`
/// (swarm personalities) unless an explicit spec is given for that execution index.
#[derive(Clone, Debug, Serialize, Deserialize)]
pub struct SchedPlan {
    pub seed: u64,
    pub hash_seed: u64,
    pub explicit: Vec<Option<SchedSpec>>,
    #[serde(default)]
    pub keep_trace: bool,
    /// faults that come from the scheduler (stall personalities) are disabled:
    /// the fault-free sub-batch
    #[serde(default)]
    pub calm: bool,
}

impl SchedPlan {
    pub fn seeded(seed: u64) -> Self {
        SchedPlan {
            seed,
            hash_seed: mix(seed, 0xbeef),
            explicit: vec![],
            keep_trace: false,
            calm: false,
        }
    }
    pub fn spec_for(&self, k: usize, reference: bool, n_tasks_hint: u32) -> SchedSpec {
        if let Some(Some(s)) = self.explicit.get(k) {
            return s.clone();
        }
        let s = mix(self.seed, 1000 + k as u64);
        if reference {
            SchedSpec::run_to_block(s)
        } else {
            let mut sp = SchedSpec::swarm(s, n_tasks_hint);
            if self.calm {
                if let Mode::Stall { .. } = sp.mode {
                    sp.mode = Mode::Uniform;
                }
            }
            sp
        }
    }
    pub fn hash_seed_for(&self, k: usize) -> u64 {
        mix(self.hash_seed, k as u64)
    }
}

pub const MAX_STEPS: usize = 400_000;

/// Run one simulated execution for evaluation `out`, folding its bookkeeping in.
pub fn run_exec<F>(
    out: &mut Outcome,
    plan: &SchedPlan,
    k: usize,
    reference: bool,
    n_tasks_hint: u32,
    f: F,
) -> ExecResult
where
    F: Fn() + Send + Sync + 'static,
{
    let spec = plan.spec_for(k, reference, n_tasks_hint);
    let strict = matches!(spec.mode, Mode::Script { .. });
    let r = exec::execute(
        ExecCfg {
            sched: spec.clone(),
            hash_seed: plan.hash_seed_for(k),
            keep_events: false,
            record_trace: plan.keep_trace,
            max_steps: MAX_STEPS,
        },
        f,
    );
    out.stats.absorb_exec(&r);
    if strict && r.diverged {
        out.diverged = true;
    }
    out.execs.push(ExecRecord {
        spec,
        trace: r.trace.clone(),
        defaults: r.defaults.clone(),
        steps: r.steps,
    });
    r
}

/// Classify an aborted execution (deadlock / step bound / panic) as a violation of
/// `property`; the panic location (file:line) is the discriminating detail.
pub fn abort_violation(property: &str, op: &str, a: &Abort) -> Violation {
    match a {
        Abort::Deadlock(m) => Violation::new(property, "deadlock", op, "blocked", m.clone()),
        Abort::StepBound(m) => Violation::new(property, "no-progress", op, "step-bound", m.clone()),
        Abort::Panic(m) => {
            let loc = m.rsplit(" @ ").next().unwrap_or("").to_string();
            // strip absolute prefix so signatures survive a moved checkout
            let loc = loc.rsplit("/src/").next().unwrap_or(&loc).to_string();
            Violation::new(property, "panic", op, &loc, m.clone())
        }
    }
}

pub trait Engine: Sync + Send {
    fn property(&self) -> &'static str;
    /// generate the case (workload + config + fault plan) for this seed
    fn gen(&self, seed: u64, thorough: bool) -> Value;
    /// case for the `index`-th run of a batch; engines with a systematic sub-batch override this
    fn gen_indexed(&self, _index: u64, seed: u64, thorough: bool) -> Value {
        self.gen(seed, thorough)
    }
    fn run(&self, case: &Value, plan: &SchedPlan) -> Outcome;
    /// structurally smaller variants of the case, most aggressive first
    fn shrink(&self, case: &Value) -> Vec<Value>;
    fn rule(&self) -> String;
    fn level(&self) -> &'static str {
        "exploration"
    }
    fn assumptions(&self) -> Vec<String>;
    /// fraction of runs executed fault-free (per mille)
    fn calm_permille(&self) -> u64 {
        250
    }
    fn runs(&self, thorough: bool) -> u64;
}
