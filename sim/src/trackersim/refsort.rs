//! RefSort: per-call re-derivation of the positional gates and the optimal
//! assignment from the observable pre-state, in f64, with robustness margins that
//! make the oracle one-sided safe (a step is asserted only when nothing is close
//! to a threshold and the optimum is unique by a margin).

use super::case::{PosMetric, TrkCfg};
use super::geom::*;

pub const DELTA_W_IOU: f64 = 2e-4;
pub const DELTA_D2: f64 = 0.03;
pub const DELTA_REACH: f64 = 1e-4;
pub const DELTA_LIMIT: f64 = 1e-4;

#[derive(Clone, Debug)]
pub struct RTrack {
    pub id: u64,
    pub gap: usize,
    pub pred: BoxF,
    pub kf: Option<Kf>,
}

#[derive(Clone, Debug, PartialEq)]
pub enum Pair {
    /// not comparable: constraint table forbids it
    Forbidden,
    /// out of bounding-circle reach or gate closed
    Closed,
    Open(f64),
}

pub struct Matrix {
    pub pairs: Vec<Vec<Pair>>,
    /// some quantity lies within its margin of a threshold
    pub near_threshold: bool,
    pub unmatched_weight: f64,
    pub weight_margin: f64,
    /// pairs decided close to (but outside the margin of) a gate
    pub close_above: u64,
    pub close_below: u64,
}

/// own implementation of the constraint table: sort by gap, a gap configured twice
/// keeps its first limit, the first entry with gap >= d applies
pub fn limit_for(table: &Option<Vec<(usize, f32)>>, gap: usize) -> Option<f64> {
    let t = table.as_ref()?;
    let mut seen: Vec<(usize, f32)> = vec![];
    for (g, l) in t {
        if !seen.iter().any(|(sg, _)| sg == g) {
            seen.push((*g, *l));
        }
    }
    seen.sort_by_key(|(g, _)| *g);
    seen.iter().find(|(g, _)| *g >= gap).map(|(_, l)| *l as f64)
}

pub fn build_matrix(cfg: &TrkCfg, dets: &[BoxF], tracks: &[RTrack], use_table: bool) -> Matrix {
    let mut near = false;
    let (mut close_above, mut close_below) = (0u64, 0u64);
    let (unmatched, wm) = match cfg.metric {
        PosMetric::IoU(t) => (t as f64, DELTA_W_IOU),
        PosMetric::Maha => (1.0, DELTA_D2 / (cfg.min_conf.max(0.01) as f64)),
    };
    let mut pairs = vec![];
    for d in dets {
        let mut row = vec![];
        let conf = (d.conf.max(cfg.min_conf)) as f64;
        for t in tracks {
            // constraint table
            if use_table {
                if let Some(lim) = limit_for(&cfg.constraints, t.gap) {
                    let dist = dist_in_2r(d, &t.pred);
                    if (dist - lim).abs() < DELTA_LIMIT * (1.0 + lim) {
                        near = true;
                    }
                    if dist > lim {
                        row.push(Pair::Forbidden);
                        continue;
                    }
                }
            }
            let slack = reach_slack(d, &t.pred);
            if slack.abs() < DELTA_REACH {
                near = true;
            }
            if slack < 0.0 {
                row.push(Pair::Closed);
                continue;
            }
            match cfg.metric {
                PosMetric::IoU(thr) => {
                    let v = iou(d, &t.pred) * conf;
                    if (v - thr as f64).abs() < DELTA_W_IOU {
                        near = true;
                    }
                    if (v - thr as f64).abs() < 0.05 {
                        if v >= thr as f64 { close_above += 1 } else { close_below += 1 }
                    }
                    if v >= thr as f64 {
                        row.push(Pair::Open(v));
                    } else {
                        row.push(Pair::Closed);
                    }
                }
                PosMetric::Maha => {
                    let d2 = t.kf.as_ref().map(|k| k.distance(d)).unwrap_or(f64::INFINITY);
                    if (d2 - CHI2_GATE).abs() < DELTA_D2 {
                        near = true;
                    }
                    if (d2 - CHI2_GATE).abs() < 2.0 {
                        if d2 <= CHI2_GATE { close_above += 1 } else { close_below += 1 }
                    }
                    if d2 <= CHI2_GATE {
                        row.push(Pair::Open((CHI2_UPPER - d2) / conf));
                    } else {
                        row.push(Pair::Closed);
                    }
                }
            }
        }
        pairs.push(row);
    }
    Matrix {
        pairs,
        near_threshold: near,
        unmatched_weight: unmatched,
        weight_margin: wm,
        close_above,
        close_below,
    }
}

/// best total weight and assignment (det -> Some(track index) | None), optionally
/// forbidding det `ban.0` from taking choice `ban.1`
pub fn solve(m: &Matrix, n_tracks: usize, ban: Option<(usize, Option<usize>)>) -> (f64, Vec<Option<usize>>) {
    let n = m.pairs.len();
    let mut best = (f64::NEG_INFINITY, vec![None; n]);
    let mut cur: Vec<Option<usize>> = vec![None; n];
    let mut used = vec![false; n_tracks];
    // upper bound of the remaining rows for pruning
    let row_max: Vec<f64> = m
        .pairs
        .iter()
        .map(|r| {
            r.iter()
                .filter_map(|p| if let Pair::Open(w) = p { Some(*w) } else { None })
                .fold(m.unmatched_weight, f64::max)
        })
        .collect();
    let mut suffix = vec![0.0; n + 1];
    for i in (0..n).rev() {
        suffix[i] = suffix[i + 1] + row_max[i];
    }
    fn rec(
        i: usize,
        acc: f64,
        m: &Matrix,
        ban: &Option<(usize, Option<usize>)>,
        cur: &mut Vec<Option<usize>>,
        used: &mut Vec<bool>,
        best: &mut (f64, Vec<Option<usize>>),
        suffix: &Vec<f64>,
    ) {
        let n = m.pairs.len();
        if i == n {
            if acc > best.0 {
                *best = (acc, cur.clone());
            }
            return;
        }
        if acc + suffix[i] <= best.0 {
            return;
        }
        for (j, p) in m.pairs[i].iter().enumerate() {
            if let Pair::Open(w) = p {
                if used[j] {
                    continue;
                }
                if let Some((bi, bc)) = ban {
                    if *bi == i && *bc == Some(j) {
                        continue;
                    }
                }
                used[j] = true;
                cur[i] = Some(j);
                rec(i + 1, acc + w, m, ban, cur, used, best, suffix);
                used[j] = false;
                cur[i] = None;
            }
        }
        let banned_none = matches!(ban, Some((bi, None)) if *bi == i);
        if !banned_none {
            cur[i] = None;
            rec(i + 1, acc + m.unmatched_weight, m, ban, cur, used, best, suffix);
        }
    }
    rec(0, 0.0, m, &ban, &mut cur, &mut used, &mut best, &suffix);
    best
}

pub struct Verdict {
    pub ambiguous: bool,
    pub best_total: f64,
    pub best: Vec<Option<usize>>,
    pub unique: bool,
    pub greedy_differs: bool,
}

pub fn analyse(m: &Matrix, n_tracks: usize) -> Verdict {
    let (bt, ba) = solve(m, n_tracks, None);
    // second best: the best assignment that differs from `ba` in at least one row
    let mut second = f64::NEG_INFINITY;
    for i in 0..ba.len() {
        let (t, _) = solve(m, n_tracks, Some((i, ba[i])));
        if t > second {
            second = t;
        }
    }
    let unique = ba.is_empty() || bt - second > 4.0 * m.weight_margin;
    // row-greedy baseline (first come, best available) for the reach probe
    let mut used = vec![false; n_tracks];
    let mut greedy: Vec<Option<usize>> = vec![];
    for row in &m.pairs {
        let mut pick = None;
        let mut bw = m.unmatched_weight;
        for (j, p) in row.iter().enumerate() {
            if let Pair::Open(w) = p {
                if !used[j] && *w > bw {
                    bw = *w;
                    pick = Some(j);
                }
            }
        }
        if let Some(j) = pick {
            used[j] = true;
        }
        greedy.push(pick);
    }
    Verdict {
        ambiguous: m.near_threshold || !unique,
        best_total: bt,
        greedy_differs: greedy != ba,
        best: ba,
        unique,
    }
}

/// `analyse` per connected component of the bipartite graph of open pairs: detections that
/// share no candidate track cannot influence one another, so the optimum (and its uniqueness)
/// is the combination of the components' optima. Returns None when a component is larger than
/// the brute-force caps (the step is then counted as ambiguous by the caller).
pub fn analyse_components(m: &Matrix, n_tracks: usize, cap_rows: usize, cap_cols: usize) -> Option<Verdict> {
    let n = m.pairs.len();
    let mut parent: Vec<usize> = (0..n + n_tracks).collect();
    fn find(p: &mut Vec<usize>, x: usize) -> usize {
        let mut r = x;
        while p[r] != r {
            r = p[r];
        }
        let mut c = x;
        while p[c] != r {
            let nx = p[c];
            p[c] = r;
            c = nx;
        }
        r
    }
    for (i, row) in m.pairs.iter().enumerate() {
        for (j, p) in row.iter().enumerate() {
            if matches!(p, Pair::Open(_)) {
                let (a, b) = (find(&mut parent, i), find(&mut parent, n + j));
                if a != b {
                    parent[a] = b;
                }
            }
        }
    }
    let mut groups: std::collections::BTreeMap<usize, (Vec<usize>, Vec<usize>)> = Default::default();
    for i in 0..n {
        let r = find(&mut parent, i);
        groups.entry(r).or_default().0.push(i);
    }
    for j in 0..n_tracks {
        let r = find(&mut parent, n + j);
        if let Some(g) = groups.get_mut(&r) {
            g.1.push(j);
        }
    }
    let mut out = Verdict { ambiguous: m.near_threshold, best_total: 0.0, best: vec![None; n], unique: true, greedy_differs: false };
    for (_, (rows, cols)) in groups {
        if rows.len() > cap_rows || cols.len() > cap_cols {
            return None;
        }
        let sub = Matrix {
            pairs: rows.iter().map(|i| cols.iter().map(|j| m.pairs[*i][*j].clone()).collect()).collect(),
            near_threshold: m.near_threshold,
            unmatched_weight: m.unmatched_weight,
            weight_margin: m.weight_margin,
            close_above: 0,
            close_below: 0,
        };
        let v = analyse(&sub, cols.len());
        out.best_total += v.best_total;
        out.unique &= v.unique;
        out.ambiguous |= v.ambiguous;
        out.greedy_differs |= v.greedy_differs;
        for (k, i) in rows.iter().enumerate() {
            out.best[*i] = v.best[k].map(|c| cols[c]);
        }
    }
    Some(out)
}

pub fn total_of(m: &Matrix, a: &[Option<usize>]) -> Option<f64> {
    let mut t = 0.0;
    for (i, c) in a.iter().enumerate() {
        match c {
            None => t += m.unmatched_weight,
            Some(j) => match &m.pairs[i][*j] {
                Pair::Open(w) => t += w,
                _ => return None,
            },
        }
    }
    Some(t)
}
