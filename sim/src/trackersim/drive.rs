//! Executes a TrackerCase on the real trackers (inside a simulated run, as the
//! client task) and records everything observable: per-call records, lifecycle
//! results, and physical snapshots of the live / wasted stores.

use super::case::*;
use super::geom::BoxF;
use serde::{Deserialize, Serialize};
use similari::prelude::*;
use similari::track::utils::FromVec;
use similari::trackers::batch::PredictionBatchResult;
use similari::trackers::sort::batch_api::SortPredictionBatchRequest;
use similari::trackers::sort::{VotingType, WastedSortTrack};
use similari::trackers::tracker_api::TrackerAPI;
use similari::trackers::visual_sort::batch_api::{BatchVisualSort, VisualSortPredictionBatchRequest};
use similari::trackers::visual_sort::WastedVisualSortTrack;
use similari_verif_rt as rt;
use std::collections::BTreeMap;
use std::sync::{Arc, Mutex};

#[derive(Clone, Debug, PartialEq, Serialize, Deserialize)]
pub struct Rec {
    pub id: u64,
    pub epoch: usize,
    pub scene: u64,
    pub length: usize,
    pub custom: Option<i64>,
    pub obs: BoxF,
    pub pred: BoxF,
    pub visual: bool,
}

#[derive(Clone, Debug, PartialEq, Serialize, Deserialize)]
pub struct GalleryItem {
    pub quality: f32,
    pub has_bbox: bool,
    pub feature: Option<Vec<f32>>,
}

#[derive(Clone, Debug, PartialEq, Serialize, Deserialize)]
pub struct TInfo {
    pub id: u64,
    pub scene: u64,
    pub length: usize,
    pub last_epoch: usize,
    pub custom: Option<i64>,
    pub obs_hist: Vec<BoxF>,
    pub pred_hist: Vec<BoxF>,
    pub feat_hist: Option<Vec<Option<Vec<f32>>>>,
    pub collected: Option<usize>,
    pub gallery: Option<Vec<GalleryItem>>,
    pub visual: Option<bool>,
}

#[derive(Clone, Debug, Default, PartialEq, Serialize, Deserialize)]
pub struct Phys {
    pub live: BTreeMap<u64, TInfo>,
    pub wasted: BTreeMap<u64, TInfo>,
    /// physical shard index in which each id was found
    pub live_shard_of: BTreeMap<u64, usize>,
    pub wasted_shard_of: BTreeMap<u64, usize>,
}

#[derive(Clone, Debug, PartialEq, Serialize, Deserialize)]
pub enum Res {
    Scenes(Vec<(u64, Vec<Rec>)>),
    Wasted(Vec<TInfo>),
    Idle(Vec<Rec>),
    Epoch(usize),
    Stats { active: Vec<usize>, wasted: Vec<usize> },
    Unit,
    /// results of the batch were (partly) never retrieved
    Partial(Vec<(u64, Vec<Rec>)>),
}

#[derive(Clone, Debug, PartialEq, Serialize, Deserialize)]
pub struct Step {
    pub res: Res,
    pub phys: Option<Phys>,
    /// number of empty quiescing batches submitted before this op (batch trackers)
    pub quiesce_batches: usize,
}

pub type History = Vec<Step>;

pub fn to_ubox(b: &BoxF) -> Universal2DBox {
    // both documented ways of giving a box its confidence (picked by a bit of the coordinate)
    if b.xc.to_bits() & 1 == 1 {
        let mut u = Universal2DBox::new(b.xc, b.yc, b.angle, b.aspect, b.height);
        u.set_confidence(b.conf);
        u
    } else {
        Universal2DBox::new_with_confidence(b.xc, b.yc, b.angle, b.aspect, b.height, b.conf)
    }
}

pub fn from_ubox(b: &Universal2DBox) -> BoxF {
    BoxF {
        xc: b.xc,
        yc: b.yc,
        angle: b.angle,
        aspect: b.aspect,
        height: b.height,
        conf: b.confidence,
    }
}

fn rec(t: &SortTrack) -> Rec {
    Rec {
        id: t.id,
        epoch: t.epoch,
        scene: t.scene_id,
        length: t.length,
        custom: t.custom_object_id,
        obs: from_ubox(&t.observed_bbox),
        pred: from_ubox(&t.predicted_bbox),
        visual: matches!(t.voting_type, VotingType::Visual),
    }
}

pub enum AnyTracker {
    Sort(Sort),
    BatchSort(BatchSort),
    Visual(VisualSort),
    BatchVisual(BatchVisualSort),
}

fn pos_metric(m: &PosMetric) -> PositionalMetricType {
    match m {
        PosMetric::IoU(t) => PositionalMetricType::IoU(*t),
        PosMetric::Maha => PositionalMetricType::Mahalanobis,
    }
}

/// the table is assembled by `calls` successive add_constraints calls (a gap
/// configured twice keeps its first limit, also across calls)
fn constraints(c: &Option<Vec<(usize, f32)>>, calls: usize) -> Option<SpatioTemporalConstraints> {
    c.as_ref().map(|v| {
        let calls = calls.max(1).min(v.len().max(1));
        let mut t = SpatioTemporalConstraints::default();
        let per = (v.len() + calls - 1) / calls.max(1);
        for chunk in v.chunks(per.max(1)) {
            t.add_constraints(chunk.to_vec());
        }
        t
    })
}

fn visual_opts(cfg: &TrkCfg) -> VisualSortOptions {
    let v = cfg.visual.as_ref().expect("visual cfg");
    // A setter is only called when the wanted value differs from the documented default
    // (README / option docs: max_idle_epochs 2, history 10, IoU(0.3), minimal track length 3,
    // area / quality / own-area thresholds 0, 5 stored features, 1 vote, Kalman weights 1/20 and
    // 1/160), so configurations that rely on the defaults are part of the explored space.
    let mut o = VisualSortOptions::default();
    macro_rules! set {
        ($cond:expr, $e:expr) => {
            if $cond {
                o = $e;
            } else {
                rt::probe::hit("option_left_at_documented_default");
            }
        };
    }
    set!(cfg.max_idle != 2, o.max_idle_epochs(cfg.max_idle));
    set!(cfg.history != 10, o.kept_history_length(cfg.history));
    o = o.visual_metric(if v.cosine {
        VisualSortMetricType::cosine(v.threshold)
    } else {
        VisualSortMetricType::euclidean(v.threshold)
    });
    set!(!matches!(cfg.metric, PosMetric::IoU(t) if t == 0.3), o.positional_metric(pos_metric(&cfg.metric)));
    set!(cfg.min_conf != 0.1, o.positional_min_confidence(cfg.min_conf));
    set!(v.min_track_len != 3, o.visual_minimal_track_length(v.min_track_len));
    set!(v.min_area != 0.0, o.visual_minimal_area(v.min_area));
    set!(v.q_use != 0.0, o.visual_minimal_quality_use(v.q_use));
    set!(v.q_collect != 0.0, o.visual_minimal_quality_collect(v.q_collect));
    set!(v.max_obs != 5, o.visual_max_observations(v.max_obs));
    set!(v.min_votes != 1, o.visual_min_votes(v.min_votes));
    set!(v.own_use != 0.0, o.visual_minimal_own_area_percentage_use(v.own_use));
    set!(v.own_collect != 0.0, o.visual_minimal_own_area_percentage_collect(v.own_collect));
    set!(cfg.pos_w != 1.0 / 20.0, o.kalman_position_weight(cfg.pos_w));
    set!(cfg.vel_w != 1.0 / 160.0, o.kalman_velocity_weight(cfg.vel_w));
    if let Some(c) = constraints(&cfg.constraints, cfg.constraint_calls) {
        o = o.spatio_temporal_constraints(c);
    }
    o
}

fn sort_info(t: &similari::track::Track<similari::trackers::sort::SortAttributes, similari::trackers::sort::metric::SortMetric, Universal2DBox>) -> TInfo {
    let a = t.get_attributes();
    TInfo {
        id: t.get_track_id(),
        scene: a.scene_id,
        length: a.track_length,
        last_epoch: a.last_updated_epoch,
        custom: a.custom_object_id,
        obs_hist: a.observed_boxes.iter().map(from_ubox).collect(),
        pred_hist: a.predicted_boxes.iter().map(from_ubox).collect(),
        feat_hist: None,
        collected: None,
        gallery: None,
        visual: None,
    }
}

type VTrack = similari::track::Track<
    similari::trackers::visual_sort::track_attributes::VisualAttributes,
    similari::trackers::visual_sort::metric::VisualMetric,
    similari::trackers::visual_sort::observation_attributes::VisualObservationAttributes,
>;

fn visual_info(t: &VTrack) -> TInfo {
    let a = t.get_attributes();
    let gallery = t.get_observations(0).map(|v| {
        v.iter()
            .map(|o| GalleryItem {
                quality: o.attr().as_ref().map(|x| x.visual_quality()).unwrap_or(f32::NAN),
                has_bbox: o.attr().as_ref().map(|x| x.bbox_opt().is_some()).unwrap_or(false),
                feature: o.feature().as_ref().map(Vec::from_vec),
            })
            .collect()
    });
    TInfo {
        id: t.get_track_id(),
        scene: a.scene_id,
        length: a.track_length,
        last_epoch: a.last_updated_epoch,
        custom: a.custom_object_id,
        obs_hist: a.observed_boxes.iter().map(from_ubox).collect(),
        pred_hist: a.predicted_boxes.iter().map(from_ubox).collect(),
        feat_hist: Some(
            a.observed_features
                .iter()
                .map(|f| f.as_ref().map(Vec::from_vec))
                .collect(),
        ),
        collected: Some(a.visual_features_collected_count),
        gallery,
        visual: a.voting_type.map(|v| matches!(v, VotingType::Visual)),
    }
}

fn wasted_sort_info(w: WastedSortTrack) -> TInfo {
    TInfo {
        id: w.id,
        scene: w.scene_id,
        length: w.length,
        last_epoch: w.epoch,
        custom: None,
        obs_hist: w.observed_boxes.iter().map(from_ubox).collect(),
        pred_hist: w.predicted_boxes.iter().map(from_ubox).collect(),
        feat_hist: None,
        collected: None,
        gallery: None,
        visual: None,
    }
}

fn wasted_visual_info(w: WastedVisualSortTrack) -> TInfo {
    TInfo {
        id: w.id,
        scene: w.scene_id,
        length: w.length,
        last_epoch: w.epoch,
        custom: None,
        obs_hist: w.observed_boxes.iter().map(from_ubox).collect(),
        pred_hist: w.predicted_boxes.iter().map(from_ubox).collect(),
        feat_hist: Some(w.observed_features.clone()),
        collected: None,
        gallery: None,
        visual: None,
    }
}

macro_rules! snap_store {
    ($guard:expr, $shards:expr, $info:ident, $map:expr, $shard_of:expr) => {{
        let g = $guard;
        for s in 0..$shards {
            let sh = g.get_store(s);
            for (id, t) in sh.iter() {
                $map.insert(*id, $info(t));
                $shard_of.insert(*id, s);
            }
        }
    }};
}

impl AnyTracker {
    pub fn new(cfg: &TrkCfg) -> AnyTracker {
        match cfg.kind {
            Kind::Sort => AnyTracker::Sort(Sort::new(
                cfg.shards,
                cfg.history,
                cfg.max_idle,
                pos_metric(&cfg.metric),
                cfg.min_conf,
                constraints(&cfg.constraints, cfg.constraint_calls),
                cfg.pos_w,
                cfg.vel_w,
            )),
            Kind::BatchSort => AnyTracker::BatchSort(BatchSort::new(
                cfg.shards,
                cfg.voting_shards,
                cfg.history,
                cfg.max_idle,
                pos_metric(&cfg.metric),
                cfg.min_conf,
                constraints(&cfg.constraints, cfg.constraint_calls),
                cfg.pos_w,
                cfg.vel_w,
            )),
            Kind::VisualSort => AnyTracker::Visual(VisualSort::new(cfg.shards, &visual_opts(cfg))),
            Kind::BatchVisualSort => {
                AnyTracker::BatchVisual(BatchVisualSort::new(cfg.shards, cfg.voting_shards, &visual_opts(cfg)))
            }
        }
    }

    /// `alt`: for scene 0 use the scene-less convenience entry point (predict, skip_epochs,
    /// current_epoch, idle_tracks), which must be the same thing as the *_with_scene(0) call
    fn predict_simple(&mut self, scene: u64, dets: &[Det], alt: bool) -> Vec<Rec> {
        let conv = alt && scene == 0;
        if conv {
            rt::probe::hit("sceneless_convenience_api_calls");
        }
        match self {
            AnyTracker::Sort(t) => {
                let v: Vec<(Universal2DBox, Option<i64>)> =
                    dets.iter().map(|d| (to_ubox(&d.b), d.custom)).collect();
                if conv {
                    return t.predict(&v).iter().map(rec).collect();
                }
                t.predict_with_scene(scene, &v).iter().map(rec).collect()
            }
            AnyTracker::Visual(t) => {
                let v: Vec<VisualSortObservation> = dets
                    .iter()
                    .map(|d| VisualSortObservation::new(d.feature.as_deref(), d.quality, to_ubox(&d.b), d.custom))
                    .collect();
                // the observation-set helper is the documented way to assemble a call
                let v = if alt {
                    let mut set = similari::trackers::visual_sort::VisualSortObservationSet::new();
                    for o in v {
                        set.add(o);
                    }
                    set.inner
                } else {
                    v
                };
                if conv {
                    return t.predict(&v).iter().map(rec).collect();
                }
                t.predict_with_scene(scene, &v).iter().map(rec).collect()
            }
            _ => unreachable!(),
        }
    }

    /// submit a batch; returns the result handle
    fn submit(&mut self, scenes: &[(u64, Vec<Det>)]) -> PredictionBatchResult {
        match self {
            AnyTracker::BatchSort(t) => {
                let mut req = SortPredictionBatchRequest::new();
                for (s, dets) in scenes {
                    for d in dets {
                        req.add(*s, to_ubox(&d.b), d.custom);
                    }
                }
                let res = req.result.take().unwrap();
                check_batch_size(&res, scenes);
                t.predict(req.batch);
                res
            }
            AnyTracker::BatchVisual(t) => {
                let mut req = VisualSortPredictionBatchRequest::new();
                for (s, dets) in scenes {
                    for d in dets {
                        req.add(
                            *s,
                            VisualSortObservation::new(d.feature.as_deref(), d.quality, to_ubox(&d.b), d.custom),
                        );
                    }
                }
                let res = req.prediction().unwrap();
                check_batch_size(&res, scenes);
                t.predict(req.batch);
                res
            }
            _ => unreachable!(),
        }
    }

    fn skip(&mut self, scene: u64, n: usize, alt: bool) {
        if alt && scene == 0 {
            rt::probe::hit("sceneless_convenience_api_calls");
            return match self {
                AnyTracker::Sort(t) => t.skip_epochs(n),
                AnyTracker::BatchSort(t) => t.skip_epochs(n),
                AnyTracker::Visual(t) => t.skip_epochs(n),
                AnyTracker::BatchVisual(t) => t.skip_epochs(n),
            };
        }
        match self {
            AnyTracker::Sort(t) => t.skip_epochs_for_scene(scene, n),
            AnyTracker::BatchSort(t) => t.skip_epochs_for_scene(scene, n),
            AnyTracker::Visual(t) => t.skip_epochs_for_scene(scene, n),
            AnyTracker::BatchVisual(t) => t.skip_epochs_for_scene(scene, n),
        }
    }

    fn wasted(&mut self) -> Vec<TInfo> {
        match self {
            AnyTracker::Sort(t) => t.wasted().into_iter().map(|x| wasted_sort_info(WastedSortTrack::from(x))).collect(),
            AnyTracker::BatchSort(t) => t.wasted().into_iter().map(|x| wasted_sort_info(WastedSortTrack::from(x))).collect(),
            AnyTracker::Visual(t) => t.wasted().into_iter().map(|x| wasted_visual_info(WastedVisualSortTrack::from(x))).collect(),
            AnyTracker::BatchVisual(t) => t.wasted().into_iter().map(|x| wasted_visual_info(WastedVisualSortTrack::from(x))).collect(),
        }
    }

    fn idle(&mut self, scene: u64, alt: bool) -> Vec<Rec> {
        if alt && scene == 0 {
            rt::probe::hit("sceneless_convenience_api_calls");
            return match self {
                AnyTracker::Sort(t) => t.idle_tracks().iter().map(rec).collect(),
                AnyTracker::BatchSort(t) => t.idle_tracks().iter().map(rec).collect(),
                AnyTracker::Visual(t) => t.idle_tracks().iter().map(rec).collect(),
                AnyTracker::BatchVisual(t) => t.idle_tracks().iter().map(rec).collect(),
            };
        }
        match self {
            AnyTracker::Sort(t) => t.idle_tracks_with_scene(scene).iter().map(rec).collect(),
            AnyTracker::BatchSort(t) => t.idle_tracks_with_scene(scene).iter().map(rec).collect(),
            AnyTracker::Visual(t) => t.idle_tracks_with_scene(scene).iter().map(rec).collect(),
            AnyTracker::BatchVisual(t) => t.idle_tracks_with_scene(scene).iter().map(rec).collect(),
        }
    }

    fn clear_wasted(&mut self) {
        match self {
            AnyTracker::Sort(t) => t.clear_wasted(),
            AnyTracker::BatchSort(t) => t.clear_wasted(),
            AnyTracker::Visual(t) => t.clear_wasted(),
            AnyTracker::BatchVisual(t) => t.clear_wasted(),
        }
    }

    fn set_auto_waste(&mut self, p: usize) {
        match self {
            AnyTracker::Sort(t) => t.set_auto_waste(p),
            AnyTracker::BatchSort(t) => t.set_auto_waste(p),
            AnyTracker::Visual(t) => t.set_auto_waste(p),
            AnyTracker::BatchVisual(t) => t.set_auto_waste(p),
        }
    }

    fn epoch(&self, scene: u64, alt: bool) -> usize {
        if alt && scene == 0 {
            rt::probe::hit("sceneless_convenience_api_calls");
            return match self {
                AnyTracker::Sort(t) => t.current_epoch(),
                AnyTracker::BatchSort(t) => t.current_epoch(),
                AnyTracker::Visual(t) => t.current_epoch(),
                AnyTracker::BatchVisual(t) => t.current_epoch(),
            };
        }
        match self {
            AnyTracker::Sort(t) => t.current_epoch_with_scene(scene),
            AnyTracker::BatchSort(t) => t.current_epoch_with_scene(scene),
            AnyTracker::Visual(t) => t.current_epoch_with_scene(scene),
            AnyTracker::BatchVisual(t) => t.current_epoch_with_scene(scene),
        }
    }

    fn stats(&self) -> (Vec<usize>, Vec<usize>) {
        match self {
            AnyTracker::Sort(t) => (t.active_shard_stats(), t.wasted_shard_stats()),
            AnyTracker::BatchSort(t) => (t.active_shard_stats(), t.wasted_shard_stats()),
            AnyTracker::Visual(t) => (t.active_shard_stats(), t.wasted_shard_stats()),
            AnyTracker::BatchVisual(t) => (t.active_shard_stats(), t.wasted_shard_stats()),
        }
    }

    fn phys(&self, shards: usize) -> Phys {
        let mut p = Phys::default();
        match self {
            AnyTracker::Sort(t) => {
                snap_store!(t.get_main_store(), shards, sort_info, p.live, p.live_shard_of);
                snap_store!(t.get_wasted_store(), shards, sort_info, p.wasted, p.wasted_shard_of);
            }
            AnyTracker::BatchSort(t) => {
                snap_store!(t.get_main_store(), shards, sort_info, p.live, p.live_shard_of);
                snap_store!(t.get_wasted_store(), shards, sort_info, p.wasted, p.wasted_shard_of);
            }
            AnyTracker::Visual(t) => {
                snap_store!(t.get_main_store(), shards, visual_info, p.live, p.live_shard_of);
                snap_store!(t.get_wasted_store(), shards, visual_info, p.wasted, p.wasted_shard_of);
            }
            AnyTracker::BatchVisual(t) => {
                snap_store!(t.get_main_store(), shards, visual_info, p.live, p.live_shard_of);
                snap_store!(t.get_wasted_store(), shards, visual_info, p.wasted, p.wasted_shard_of);
            }
        }
        p
    }
}

struct Late {
    op_index: usize,
    handle: rt::thread::JoinHandle<()>,
    sink: Arc<Mutex<Vec<(u64, Vec<Rec>)>>>,
}

/// "one result per scene it contains": the handle must announce exactly the number of
/// distinct scenes of the request (0 for an empty one), or a consumer reads too few / blocks
fn check_batch_size(h: &PredictionBatchResult, scenes: &[(u64, Vec<Det>)]) {
    let mut ids: Vec<u64> = scenes.iter().filter(|(_, d)| !d.is_empty()).map(|(s, _)| *s).collect();
    ids.sort_unstable();
    ids.dedup();
    if h.batch_size() != ids.len() {
        panic!("batch_size() = {} for a request holding {} scene(s)", h.batch_size(), ids.len());
    }
}

/// `poll`: the consumer polls `ready()` (yielding in between) before every `get()`
fn read_results(h: &PredictionBatchResult, n: usize, poll: bool) -> Vec<(u64, Vec<Rec>)> {
    let mut v = vec![];
    for _ in 0..n {
        if poll {
            rt::probe::hit("consumer_polls_ready");
            let mut spins = 0u32;
            while !h.ready() {
                rt::thread::yield_now();
                spins += 1;
                if spins == 1 {
                    rt::probe::hit("consumer_poll_found_not_ready");
                }
            }
        }
        let (scene, recs) = h.get();
        v.push((scene, recs.iter().map(rec).collect()));
    }
    v
}

pub struct DriveOpts {
    /// take physical snapshots after every quiescent operation
    pub snapshots: bool,
}

pub fn run_tracker(case: &TrackerCase, opts: &DriveOpts) -> History {
    let cfg = &case.cfg;
    let mut t = AnyTracker::new(cfg);
    let is_batch = cfg.kind.is_batch();
    let mut hist: History = Vec::with_capacity(case.ops.len());
    let mut late: Vec<Late> = vec![];
    // a batch whose results were not fully retrieved is in flight
    let mut dangling = false;
    let n_ops = case.ops.len();
    for (i, op) in case.ops.iter().enumerate() {
        rt::log::record(rt::log::Kind::OpInvoke, i as u32, "op", 0);
        let mut quiesce_batches = 0;
        let is_predict = matches!(op, TOp::Predict { .. } | TOp::Batch { .. });
        if is_batch && !is_predict {
            // lifecycle calls require that nothing of an earlier batch is still running
            for l in late.drain(..) {
                l.handle.join().unwrap();
                let got = std::mem::take(&mut *l.sink.lock().unwrap());
                hist[l.op_index].res = Res::Scenes(got);
                rt::probe::hit("late_consumer_joined_before_lifecycle_op");
            }
            if dangling {
                let h = t.submit(&[]);
                drop(h);
                quiesce_batches += 1;
                dangling = false;
            }
        }
        let res = match op {
            TOp::Predict { scene, dets } => {
                if is_batch {
                    if dets.is_empty() {
                        // an empty scene cannot be expressed in a batch request; submit an
                        // empty batch instead (same GC tick, no epoch change) - the oracle
                        // knows (see oracle: empty predict on batch trackers)
                        let h = t.submit(&[]);
                        drop(h);
                        Res::Scenes(vec![])
                    } else {
                        let h = t.submit(&[(*scene, dets.clone())]);
                        let n = h.batch_size();
                        Res::Scenes(read_results(&h, n, i % 3 == 2))
                    }
                } else {
                    Res::Scenes(vec![(*scene, t.predict_simple(*scene, dets, i % 2 == 1))])
                }
            }
            TOp::Batch { scenes, consumer } => {
                if is_batch {
                    let h = t.submit(scenes);
                    let n = h.batch_size();
                    match consumer {
                        Consumer::Same => Res::Scenes(read_results(&h, n, i % 3 == 2)),
                        Consumer::Other if n >= 2 && i % 2 == 0 => {
                            // the handle is Clone: two consumer threads share the results of one batch
                            rt::probe::hit("consumer_two_threads_share_one_batch");
                            let sink = Arc::new(Mutex::new(vec![]));
                            let mut js = vec![];
                            for (part, hh) in [(n / 2, h.clone()), (n - n / 2, h)] {
                                let s2 = sink.clone();
                                js.push(rt::thread::spawn(move || {
                                    let v = read_results(&hh, part, i % 3 == 2);
                                    s2.lock().unwrap().extend(v);
                                }));
                            }
                            for j in js {
                                j.join().unwrap();
                            }
                            let got = std::mem::take(&mut *sink.lock().unwrap());
                            Res::Scenes(got)
                        }
                        Consumer::Other => {
                            let sink = Arc::new(Mutex::new(vec![]));
                            let s2 = sink.clone();
                            let jh = rt::thread::spawn(move || {
                                let v = read_results(&h, n, i % 3 == 2);
                                *s2.lock().unwrap() = v;
                            });
                            jh.join().unwrap();
                            rt::probe::hit("consumer_other_thread");
                            let got = std::mem::take(&mut *sink.lock().unwrap());
                            Res::Scenes(got)
                        }
                        Consumer::OtherLate => {
                            let sink = Arc::new(Mutex::new(vec![]));
                            let s2 = sink.clone();
                            let jh = rt::thread::spawn(move || {
                                let v = read_results(&h, n, i % 3 == 2);
                                *s2.lock().unwrap() = v;
                            });
                            late.push(Late { op_index: i, handle: jh, sink });
                            rt::probe::hit("consumer_late_thread");
                            Res::Unit // filled in when the consumer is joined
                        }
                        Consumer::DropAfter(k) => {
                            let k = (*k).min(n);
                            let got = read_results(&h, k, i % 3 == 2);
                            drop(h);
                            if k < n {
                                dangling = true;
                                rt::probe::hit("batch_result_dropped_early");
                            }
                            if k == n {
                                Res::Scenes(got)
                            } else {
                                Res::Partial(got)
                            }
                        }
                    }
                } else {
                    let mut v = vec![];
                    for (s, dets) in scenes {
                        v.push((*s, t.predict_simple(*s, dets, i % 2 == 1)));
                    }
                    Res::Scenes(v)
                }
            }
            TOp::Skip { scene, n } => {
                t.skip(*scene, *n, i % 2 == 1);
                Res::Unit
            }
            TOp::Wasted => Res::Wasted(t.wasted()),
            TOp::Idle { scene } => Res::Idle(t.idle(*scene, i % 2 == 1)),
            TOp::ClearWasted => {
                t.clear_wasted();
                Res::Unit
            }
            TOp::SetAutoWaste(p) => {
                t.set_auto_waste(*p);
                Res::Unit
            }
            TOp::Epoch { scene } => Res::Epoch(t.epoch(*scene, i % 2 == 1)),
            TOp::Stats => {
                let (a, w) = t.stats();
                Res::Stats { active: a, wasted: w }
            }
        };
        rt::log::record(rt::log::Kind::OpReturn, i as u32, "op", 0);
        let quiescent = late.is_empty() && !dangling;
        let phys = if opts.snapshots && quiescent { Some(t.phys(cfg.shards)) } else { None };
        hist.push(Step { res, phys, quiesce_batches });
        let _ = n_ops;
    }
    // shutdown: in half of the histories that still have consumers reading on other threads
    // the tracker is dropped FIRST (its Drop joins the voting threads, which can only finish
    // once those consumers have taken their results) and the consumers are joined afterwards
    let mut t = Some(t);
    if !late.is_empty() && late.len() % 2 == 1 {
        rt::probe::hit("shutdown_while_consumers_still_reading");
        drop(t.take());
    }
    for l in late.drain(..) {
        l.handle.join().unwrap();
        let got = std::mem::take(&mut *l.sink.lock().unwrap());
        hist[l.op_index].res = Res::Scenes(got);
    }
    // shutdown with whatever is still in flight
    drop(t);
    hist
}
