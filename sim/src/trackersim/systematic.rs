//! Small-scope enumeration of lifecycle histories (C03): every sequence of up to `len`
//! operations over a fixed alphabet of predict (with a detection, empty, two detections),
//! skip_epochs, wasted, idle_tracks, clear_wasted, set_auto_waste, statistics and
//! current_epoch calls on two scenes whose objects occupy the SAME image region, for all four
//! tracker kinds and max_idle_epochs 0, 1, 2. As in the store engine only the workload
//! dimension is enumerated; each history still runs under seeded schedules, hash seeds, id
//! streams and auto-waste periodicity variants.

use super::case::*;
use super::geom::BoxF;

const SCENE_A: u64 = 0;
const SCENE_B: u64 = 7;
const KINDS: [Kind; 4] = [Kind::Sort, Kind::BatchSort, Kind::VisualSort, Kind::BatchVisualSort];
const IDLES: [usize; 3] = [0, 1, 2];
pub const ALPHABET: u64 = 15;

fn det(obj: u32, pos: usize) -> Det {
    // three stationary objects: 0 and 1 at the same place (different scenes), 2 far away
    let (x, y) = match obj {
        2 => (400.0, 300.0),
        _ => (100.0, 100.0),
    };
    let mut f = vec![0.0f32; 6];
    f[obj as usize] = 3.0;
    // unique tag coordinate: every stored feature stays attributable
    f.push(0.001 * ((pos * 4 + obj as usize) % 1000) as f32);
    Det {
        b: BoxF { xc: x, yc: y, angle: None, aspect: 1.0, height: 50.0, conf: 1.0 },
        custom: Some(obj as i64 + 1),
        feature: Some(f),
        quality: Some(0.9),
        truth: obj,
    }
}

fn op(code: u64, pos: usize, max_idle: usize) -> TOp {
    match code {
        0 => TOp::Predict { scene: SCENE_A, dets: vec![det(0, pos)] },
        1 => TOp::Predict { scene: SCENE_A, dets: vec![] },
        2 => TOp::Predict { scene: SCENE_B, dets: vec![det(1, pos)] },
        3 => TOp::Predict { scene: SCENE_A, dets: vec![det(2, pos), det(0, pos)] },
        4 => TOp::Skip { scene: SCENE_A, n: 1 },
        5 => TOp::Skip { scene: SCENE_A, n: max_idle + 1 },
        6 => TOp::Wasted,
        7 => TOp::Idle { scene: SCENE_A },
        8 => TOp::ClearWasted,
        9 => TOp::SetAutoWaste(0),
        10 => TOp::SetAutoWaste(1),
        11 => TOp::Stats,
        12 => TOp::Epoch { scene: SCENE_A },
        13 => TOp::Skip { scene: SCENE_B, n: 2 },
        _ => TOp::Idle { scene: SCENE_B },
    }
}

fn variants() -> u64 {
    (KINDS.len() * IDLES.len()) as u64
}

pub fn count(len: u32) -> u64 {
    variants() * ALPHABET.pow(len)
}

pub fn total(max_len: u32) -> u64 {
    (1..=max_len).map(count).sum()
}

pub fn case(mut idx: u64, max_len: u32) -> TrackerCase {
    let mut len = 1;
    while len < max_len && idx >= count(len) {
        idx -= count(len);
        len += 1;
    }
    let v = idx % variants();
    idx /= variants();
    let kind = KINDS[(v % KINDS.len() as u64) as usize];
    let max_idle = IDLES[(v / KINDS.len() as u64) as usize];
    let cfg = TrkCfg {
        kind,
        shards: 2,
        voting_shards: 2,
        history: 3,
        max_idle,
        metric: PosMetric::IoU(0.3),
        min_conf: 0.05,
        constraints: None,
        pos_w: 0.05,
        vel_w: 0.00625,
        constraint_calls: 1,
        visual: if kind.is_visual() {
            Some(VisualCfg {
                cosine: false,
                threshold: 1.0,
                min_votes: 1,
                min_track_len: 1,
                max_obs: 3,
                q_use: 0.0,
                q_collect: 0.0,
                min_area: 0.0,
                own_use: 0.0,
                own_collect: 0.0,
            })
        } else {
            None
        },
    };
    // every history starts with both objects tracked
    let mut ops = vec![op(0, 0, max_idle), op(2, 1, max_idle)];
    for k in 0..len {
        ops.push(op(idx % ALPHABET, 2 + k as usize, max_idle));
        idx /= ALPHABET;
    }
    // and ends by collecting what expired (conservation is judged on the whole history)
    ops.push(TOp::Wasted);
    ops.push(TOp::Stats);
    TrackerCase { cfg, ops }
}
