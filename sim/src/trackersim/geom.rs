//! Independent f64 geometry and Kalman reference used by RefSort (no code shared
//! with /repo): oriented-box polygons, convex intersection, IoU, bounding circles,
//! and the constant-velocity filter as five decoupled (position, velocity) pairs.

use serde::{Deserialize, Serialize};

#[derive(Clone, Debug, PartialEq, Serialize, Deserialize)]
pub struct BoxF {
    pub xc: f32,
    pub yc: f32,
    pub angle: Option<f32>,
    pub aspect: f32,
    pub height: f32,
    pub conf: f32,
}

impl BoxF {
    pub fn radius(&self) -> f64 {
        let hw = self.aspect as f64 * self.height as f64 / 2.0;
        let hh = self.height as f64 / 2.0;
        (hw * hw + hh * hh).sqrt()
    }
    pub fn area(&self) -> f64 {
        self.height as f64 * self.height as f64 * self.aspect as f64
    }
    pub fn vertices(&self) -> [(f64, f64); 4] {
        let a = self.angle.unwrap_or(0.0) as f64;
        let (s, c) = a.sin_cos();
        let hw = self.aspect as f64 * self.height as f64 / 2.0;
        let hh = self.height as f64 / 2.0;
        let (x, y) = (self.xc as f64, self.yc as f64);
        let corner = |dx: f64, dy: f64| (x + dx * c - dy * s, y + dx * s + dy * c);
        // counter-clockwise in a y-up frame
        [corner(-hw, -hh), corner(hw, -hh), corner(hw, hh), corner(-hw, hh)]
    }
    pub fn centre_dist(&self, o: &BoxF) -> f64 {
        let dx = self.xc as f64 - o.xc as f64;
        let dy = self.yc as f64 - o.yc as f64;
        (dx * dx + dy * dy).sqrt()
    }
}

fn poly_area(p: &[(f64, f64)]) -> f64 {
    let n = p.len();
    if n < 3 {
        return 0.0;
    }
    let mut s = 0.0;
    for i in 0..n {
        let (x1, y1) = p[i];
        let (x2, y2) = p[(i + 1) % n];
        s += x1 * y2 - x2 * y1;
    }
    s.abs() / 2.0
}

/// intersection area of two convex quadrilaterals by successive half-plane clipping
pub fn intersection_area(a: &BoxF, b: &BoxF) -> f64 {
    let clip = b.vertices();
    let mut poly: Vec<(f64, f64)> = a.vertices().to_vec();
    for i in 0..4 {
        let (ax, ay) = clip[i];
        let (bx, by) = clip[(i + 1) % 4];
        // inside = left of the directed edge a->b (clip is counter-clockwise)
        let side = |p: (f64, f64)| (bx - ax) * (p.1 - ay) - (by - ay) * (p.0 - ax);
        let mut out = Vec::with_capacity(poly.len() + 2);
        let n = poly.len();
        for j in 0..n {
            let p = poly[j];
            let q = poly[(j + 1) % n];
            let sp = side(p);
            let sq = side(q);
            if sp >= 0.0 {
                out.push(p);
            }
            if (sp > 0.0 && sq < 0.0) || (sp < 0.0 && sq > 0.0) {
                let t = sp / (sp - sq);
                out.push((p.0 + t * (q.0 - p.0), p.1 + t * (q.1 - p.1)));
            }
        }
        poly = out;
        if poly.len() < 3 {
            return 0.0;
        }
    }
    poly_area(&poly)
}

fn clip_poly(poly: &[(f64, f64)], b: &BoxF) -> Vec<(f64, f64)> {
    let clip = b.vertices();
    let mut poly: Vec<(f64, f64)> = poly.to_vec();
    for i in 0..4 {
        let (ax, ay) = clip[i];
        let (bx, by) = clip[(i + 1) % 4];
        let side = |p: (f64, f64)| (bx - ax) * (p.1 - ay) - (by - ay) * (p.0 - ax);
        let mut out = Vec::with_capacity(poly.len() + 2);
        let n = poly.len();
        for j in 0..n {
            let p = poly[j];
            let q = poly[(j + 1) % n];
            let sp = side(p);
            let sq = side(q);
            if sp >= 0.0 {
                out.push(p);
            }
            if (sp > 0.0 && sq < 0.0) || (sp < 0.0 && sq > 0.0) {
                let t = sp / (sp - sq);
                out.push((p.0 + t * (q.0 - p.0), p.1 + t * (q.1 - p.1)));
            }
        }
        poly = out;
        if poly.len() < 3 {
            return vec![];
        }
    }
    poly
}

/// fraction of `a` not covered by any of `others` (inclusion-exclusion over the
/// convex intersections; exact up to rounding)
pub fn uncovered_share(a: &BoxF, others: &[&BoxF]) -> f64 {
    fn rec(poly: &[(f64, f64)], others: &[&BoxF], start: usize, sign: f64, acc: &mut f64) {
        for i in start..others.len() {
            let p = clip_poly(poly, others[i]);
            let ar = poly_area(&p);
            if ar <= 0.0 {
                continue;
            }
            *acc += sign * ar;
            rec(&p, others, i + 1, -sign, acc);
        }
    }
    let base = a.vertices().to_vec();
    let mut covered = 0.0;
    rec(&base, others, 0, 1.0, &mut covered);
    let area = a.area();
    ((area - covered) / area).clamp(0.0, 1.0)
}

pub fn iou(a: &BoxF, b: &BoxF) -> f64 {
    let i = intersection_area(a, b);
    if i <= 0.0 {
        return 0.0;
    }
    i / (a.area() + b.area() - i)
}

/// centre distance in units of the sum of the bounding radii
pub fn dist_in_2r(a: &BoxF, b: &BoxF) -> f64 {
    let r = a.radius() + b.radius();
    a.centre_dist(b) / (r * r + 1e-5).sqrt()
}

/// how far inside (+) or outside (-) bounding-circle reach the pair is, relative
pub fn reach_slack(a: &BoxF, b: &BoxF) -> f64 {
    let r = a.radius() + b.radius();
    (r - a.centre_dist(b)) / r.max(1e-9)
}

// ---------------------------------------------------------------------------

#[derive(Clone, Debug)]
pub struct Kf {
    /// per dimension (xc, yc, angle, aspect, height): position, velocity, cov a b c
    pub p: [f64; 5],
    pub v: [f64; 5],
    pub a: [f64; 5],
    pub b: [f64; 5],
    pub c: [f64; 5],
    pub pw: f64,
    pub vw: f64,
}

fn meas(z: &BoxF) -> [f64; 5] {
    [
        z.xc as f64,
        z.yc as f64,
        z.angle.unwrap_or(0.0) as f64,
        z.aspect as f64,
        z.height as f64,
    ]
}

impl Kf {
    pub fn initiate(z: &BoxF, pw: f64, vw: f64) -> Kf {
        let m = meas(z);
        let h = z.height as f64;
        let mut a = [0.0; 5];
        let mut c = [0.0; 5];
        for i in 0..5 {
            let sp = if i == 3 { 1e-2 } else { 2.0 * pw * h };
            let sv = if i == 3 { 1e-5 } else { 10.0 * vw * h };
            a[i] = sp * sp;
            c[i] = sv * sv;
        }
        Kf { p: m, v: [0.0; 5], a, b: [0.0; 5], c, pw, vw }
    }
    pub fn predict(&mut self) {
        let h = self.p[4];
        for i in 0..5 {
            let qp = if i == 3 { 1e-2 } else { self.pw * h };
            let qv = if i == 3 { 1e-5 } else { self.vw * h };
            let (a, b, c) = (self.a[i], self.b[i], self.c[i]);
            self.p[i] += self.v[i];
            self.a[i] = a + 2.0 * b + c + qp * qp;
            self.b[i] = b + c;
            self.c[i] = c + qv * qv;
        }
    }
    fn innovation_cov(&self) -> [f64; 5] {
        let h = self.p[4];
        let mut s = [0.0; 5];
        for i in 0..5 {
            let r = if i == 3 { 1e-1 } else { self.pw * h };
            s[i] = self.a[i] + r * r;
        }
        s
    }
    pub fn update(&mut self, z: &BoxF) {
        let s = self.innovation_cov();
        let m = meas(z);
        for i in 0..5 {
            let k0 = self.a[i] / s[i];
            let k1 = self.b[i] / s[i];
            let inn = m[i] - self.p[i];
            self.p[i] += k0 * inn;
            self.v[i] += k1 * inn;
            let (a, b, c) = (self.a[i], self.b[i], self.c[i]);
            self.a[i] = a - a * a / s[i];
            self.b[i] = b - a * b / s[i];
            self.c[i] = c - b * b / s[i];
        }
    }
    /// squared Mahalanobis distance of a measurement from the projected state
    pub fn distance(&self, z: &BoxF) -> f64 {
        let s = self.innovation_cov();
        let m = meas(z);
        let mut d = 0.0;
        for i in 0..5 {
            let e = m[i] - self.p[i];
            d += e * e / s[i];
        }
        d
    }
    pub fn boxf(&self, conf: f32) -> BoxF {
        BoxF {
            xc: self.p[0] as f32,
            yc: self.p[1] as f32,
            angle: if self.p[2] == 0.0 { None } else { Some(self.p[2] as f32) },
            aspect: self.p[3] as f32,
            height: self.p[4] as f32,
            conf,
        }
    }
}

pub const CHI2_GATE: f64 = 11.070;
pub const CHI2_UPPER: f64 = 100.0;
