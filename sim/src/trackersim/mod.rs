pub mod case;
pub mod drive;
pub mod geom;
pub mod oracle;
pub mod refsort;
pub mod systematic;

use crate::common::*;
use crate::exec::Abort;
use crate::sched::{mix, Rng};
use case::*;
use drive::*;
use oracle::*;
use serde_json::{json, Value};
use std::collections::{BTreeMap, BTreeSet};
use std::sync::{Arc, Mutex};

/// run one tracker history under the simulator; returns the recorded history, or
/// None when the execution aborted (the abort is turned into a violation of the
/// property that owns it)
pub fn exec_tracker(
    out: &mut Outcome,
    plan: &SchedPlan,
    k: usize,
    reference: bool,
    case: &TrackerCase,
    snapshots: bool,
) -> (Option<History>, Vec<Violation>) {
    let shared: Arc<Mutex<Option<History>>> = Arc::new(Mutex::new(None));
    let s2 = shared.clone();
    let c2 = case.clone();
    let hint = (2 * case.cfg.shards + if case.cfg.kind.is_batch() { case.cfg.voting_shards } else { 0 }) as u32;
    let r = run_exec(out, plan, k, reference, hint, move || {
        let h = run_tracker(&c2, &DriveOpts { snapshots });
        *s2.lock().unwrap() = Some(h);
    });
    let h = shared.lock().unwrap().take();
    if std::env::var("SIM_DUMP").is_ok() {
        eprintln!("--- exec {k} cfg {:?}", case.cfg);
        if let Some(h) = &h {
            for (i, (op, st)) in case.ops.iter().zip(h.iter()).enumerate() {
                let opj = serde_json::to_string(op).unwrap();
                eprintln!("op {i}: {} => {}", &opj[..opj.len().min(160)], serde_json::to_string(&st.res).unwrap());
            }
        }
    }
    out.stats.ops += case.ops.len() as u64;
    // fault kinds that are part of the workload: count what actually fired
    let late = r.probes.get("consumer_late_thread").cloned().unwrap_or(0);
    if late > 0 {
        out.stats.fault("late-consumer", late);
    }
    let dropped = r.probes.get("batch_result_dropped_early").cloned().unwrap_or(0);
    if dropped > 0 {
        out.stats.fault("cancel-batch-result", dropped);
    }
    let rearm = case.ops.iter().filter(|o| matches!(o, TOp::SetAutoWaste(_))).count() as u64;
    if rearm > 0 && r.abort.is_none() {
        out.stats.fault("gc-rearm", rearm);
    }
    out.stats.fault("hash-and-id-entropy", 1);
    if r.context_switches > 0 && case.ops.len() >= 2 {
        out.stats.nontrivial = true;
    }
    // who owns an aborted execution: a panic means the call delivered no result
    // (C01); for batch trackers it also means a scene result was never delivered
    // (C06); deadlock / no progress is C06's bounded liveness for batch trackers
    // and C01's for simple ones
    let v: Vec<Violation> = match r.abort.as_ref() {
        None => vec![],
        Some(a) => {
            let batch = case.cfg.kind.is_batch();
            match a {
                Abort::Deadlock(_) | Abort::StepBound(_) => {
                    vec![abort_violation(if batch { "C06" } else { "C01" }, "run", a)]
                }
                Abort::Panic(_) => {
                    let mut v = vec![abort_violation("C01", "run", a)];
                    if batch {
                        v.push(abort_violation("C06", "run", a));
                    }
                    v
                }
            }
        }
    };
    (if r.abort.is_some() { None } else { h }, v)
}

fn absorb_walk(out: &mut Outcome, w: &WalkStats) {
    let s = &mut out.stats;
    s.epochs += w.epochs;
    s.probe("predict_calls", w.predict_calls);
    s.probe("detections", w.detections);
    s.probe("continuations", w.continuations);
    s.probe("new_tracks", w.new_tracks);
    s.probe("refsort_asserted_steps", w.asserted_steps);
    s.probe("refsort_ambiguous_steps", w.ambiguous_steps);
    s.probe("greedy_differs_from_optimal", w.greedy_differs);
    s.probe("gated_but_unassigned", w.gated_but_unassigned);
    s.probe("expired_while_physically_live", w.expiry_while_physically_live);
    s.probe("wasted_returned_many", w.wasted_multi);
    s.probe("idle_nonempty", w.idle_nonempty);
    s.probe("constraint_binding_steps", w.constraint_binding);
    s.probe("reference_kalman_mismatch", w.kf_mismatch);
    s.probe("visual_records", w.visual_records);
    s.probe("pairs_near_gate_open", w.near_gate_open);
    s.probe("pairs_near_gate_closed", w.near_gate_closed);
    s.probe("steps_with_competing_tracks", w.multi_choice_steps);
    s.probe("refvisual_asserted_steps", w.rv_asserted);
    s.probe("refvisual_ambiguous_steps", w.rv_ambiguous);
    s.probe("visual_attachments", w.rv_visual_attach);
    s.probe("visual_contests", w.rv_contests);
    s.probe("visual_contest_losers", w.rv_losers);
    s.probe("visual_fallback_to_positional_rows", w.rv_fallback_rows);
    s.probe("visual_track_too_short", w.rv_track_too_short);
    s.probe("visual_feature_unusable_quality", w.rv_unusable_quality);
    s.probe("visual_feature_unusable_area", w.rv_unusable_area);
    s.probe("visual_votes_below_min", w.rv_votes_below_min);
    s.probe("visual_feature_unusable_own_area", w.rv_unusable_own_area);
}

/// pick the violation owned by `prop`; count the others
fn own(out: &mut Outcome, prop: &str, vs: Vec<Violation>) -> Option<Violation> {
    let mut mine = None;
    for v in vs {
        if v.property == prop {
            if mine.is_none() {
                mine = Some(v);
            }
        } else {
            out.stats.probe(&format!("foreign_clause_{}_{}", v.property, v.clause), 1);
        }
    }
    mine
}

// ---------------------------------------------------------------------------
// canonical observable stream (ids renamed per scene by first appearance)

#[derive(Clone, Debug, PartialEq)]
pub enum CEv {
    Call { op: usize, scene: u64, recs: Vec<(u64, usize, usize, Option<i64>, Vec<u32>, Vec<u32>, bool)> },
    Idle { op: usize, scene: u64, set: BTreeSet<u64> },
    Wasted { op: usize, set: BTreeSet<(u64, u64, usize, usize)> },
    Epoch { op: usize, e: usize },
}

fn bits(b: &geom::BoxF) -> Vec<u32> {
    vec![
        b.xc.to_bits(),
        b.yc.to_bits(),
        b.angle.map(|a| a.to_bits()).unwrap_or(u32::MAX),
        b.aspect.to_bits(),
        b.height.to_bits(),
        b.conf.to_bits(),
    ]
}

pub struct Canon {
    pub events: Vec<CEv>,
    /// raw id -> (scene, ordinal)
    pub names: BTreeMap<u64, (u64, u64)>,
}

/// `only_scene`: keep only what concerns that scene; `rename`: canonical ids
pub fn canon(case: &TrackerCase, hist: &History, upto: usize, only_scene: Option<u64>, rename: bool) -> Canon {
    let mut names: BTreeMap<u64, (u64, u64)> = BTreeMap::new();
    let mut next: BTreeMap<u64, u64> = BTreeMap::new();
    let mut ev = vec![];
    let name = |names: &BTreeMap<u64, (u64, u64)>, id: u64| -> u64 {
        if !rename {
            return id;
        }
        match names.get(&id) {
            Some((_s, k)) => *k,
            None => u64::MAX - 1,
        }
    };
    for (opi, (op, st)) in case.ops.iter().zip(hist.iter()).enumerate() {
        if opi >= upto {
            break;
        }
        match (&st.res, op) {
            (Res::Scenes(rs), _) => {
                let mut rs2: Vec<&(u64, Vec<Rec>)> = rs.iter().collect();
                rs2.sort_by_key(|x| x.0);
                for (scene, recs) in rs2 {
                    if only_scene.map(|s| s != *scene).unwrap_or(false) {
                        continue;
                    }
                    let mut out = vec![];
                    for r in recs {
                        if !names.contains_key(&r.id) {
                            let k = next.entry(*scene).or_insert(0);
                            names.insert(r.id, (*scene, *k));
                            *k += 1;
                        }
                        out.push((name(&names, r.id), r.epoch, r.length, r.custom, bits(&r.obs), bits(&r.pred), r.visual));
                    }
                    ev.push(CEv::Call { op: opi, scene: *scene, recs: out });
                }
            }
            (Res::Idle(rs), TOp::Idle { scene }) => {
                if only_scene.map(|s| s != *scene).unwrap_or(false) {
                    continue;
                }
                ev.push(CEv::Idle { op: opi, scene: *scene, set: rs.iter().map(|r| name(&names, r.id)).collect() });
            }
            (Res::Wasted(w), _) => {
                let set = w
                    .iter()
                    .filter(|t| only_scene.map(|s| s == t.scene).unwrap_or(true))
                    .map(|t| (t.scene, name(&names, t.id), t.length, t.last_epoch))
                    .collect();
                ev.push(CEv::Wasted { op: opi, set });
            }
            (Res::Epoch(e), TOp::Epoch { scene }) => {
                if only_scene.map(|s| s != *scene).unwrap_or(false) {
                    continue;
                }
                ev.push(CEv::Epoch { op: opi, e: *e });
            }
            _ => {}
        }
    }
    Canon { events: ev, names }
}

/// first difference between two canonical streams (events matched positionally,
/// `op` indices ignored when `ignore_op`)
fn first_diff(a: &[CEv], b: &[CEv], ignore_op: bool) -> Option<(usize, String, &'static str)> {
    let strip = |e: &CEv| -> CEv {
        if !ignore_op {
            return e.clone();
        }
        match e.clone() {
            CEv::Call { scene, recs, .. } => CEv::Call { op: 0, scene, recs },
            CEv::Idle { scene, set, .. } => CEv::Idle { op: 0, scene, set },
            CEv::Wasted { set, .. } => CEv::Wasted { op: 0, set },
            CEv::Epoch { e, .. } => CEv::Epoch { op: 0, e },
        }
    };
    for i in 0..a.len().max(b.len()) {
        match (a.get(i), b.get(i)) {
            (Some(x), Some(y)) => {
                let (sx, sy) = (strip(x), strip(y));
                if sx != sy {
                    let kind = match (&sx, &sy) {
                        (CEv::Call { recs: r1, .. }, CEv::Call { recs: r2, .. }) => {
                            if r1.len() != r2.len() {
                                "record-count"
                            } else if r1.iter().zip(r2.iter()).any(|(p, q)| p.0 != q.0) {
                                "grouping"
                            } else if r1.iter().zip(r2.iter()).any(|(p, q)| p.1 != q.1 || p.2 != q.2) {
                                "epoch-or-length"
                            } else if r1.iter().zip(r2.iter()).any(|(p, q)| p.5 != q.5) {
                                "predicted-box"
                            } else {
                                "record-fields"
                            }
                        }
                        (CEv::Idle { .. }, CEv::Idle { .. }) => "idle-set",
                        (CEv::Wasted { .. }, CEv::Wasted { .. }) => "wasted-set",
                        (CEv::Epoch { .. }, CEv::Epoch { .. }) => "epoch",
                        _ => "event-kind",
                    };
                    return Some((i, format!("{:?}  VS  {:?}", x, y), kind));
                }
            }
            (x, y) => return Some((i, format!("{:?}  VS  {:?}", x, y), "stream-length")),
        }
    }
    None
}

// ---------------------------------------------------------------------------
// shrinking of tracker cases

pub fn shrink_tracker_case(c: &TrackerCase) -> Vec<TrackerCase> {
    let mut v = vec![];
    let n = c.ops.len();
    let mut chunk = n / 2;
    while chunk >= 1 {
        let mut start = 0;
        while start < n {
            let end = (start + chunk).min(n);
            let mut x = c.clone();
            x.ops.drain(start..end);
            if !x.ops.is_empty() {
                v.push(x);
            }
            start += chunk;
        }
        if chunk == 1 {
            break;
        }
        chunk /= 2;
    }
    if c.cfg.shards > 1 {
        let mut x = c.clone();
        x.cfg.shards = 1;
        v.push(x);
    }
    if c.cfg.voting_shards > 1 {
        let mut x = c.clone();
        x.cfg.voting_shards = 1;
        v.push(x);
    }
    if c.cfg.constraints.is_some() {
        let mut x = c.clone();
        x.cfg.constraints = None;
        v.push(x);
    }
    if c.cfg.history > 1 {
        let mut x = c.clone();
        x.cfg.history = 1;
        v.push(x);
    }
    // drop detections / scenes inside calls
    for (i, op) in c.ops.iter().enumerate() {
        match op {
            TOp::Predict { scene, dets } => {
                for j in 0..dets.len() {
                    let mut d2 = dets.clone();
                    d2.remove(j);
                    let mut x = c.clone();
                    x.ops[i] = TOp::Predict { scene: *scene, dets: d2 };
                    v.push(x);
                }
                for j in 0..dets.len() {
                    if dets[j].b.angle.is_some() || dets[j].custom.is_some() || dets[j].b.conf != 1.0 {
                        let mut d2 = dets.clone();
                        d2[j].b.angle = None;
                        d2[j].custom = None;
                        d2[j].b.conf = 1.0;
                        let mut x = c.clone();
                        x.ops[i] = TOp::Predict { scene: *scene, dets: d2 };
                        v.push(x);
                    }
                }
            }
            TOp::Batch { scenes, consumer } => {
                if scenes.len() > 1 {
                    for j in 0..scenes.len() {
                        let mut s2 = scenes.clone();
                        s2.remove(j);
                        let mut x = c.clone();
                        x.ops[i] = TOp::Batch { scenes: s2, consumer: *consumer };
                        v.push(x);
                    }
                }
                for (j, (_, dets)) in scenes.iter().enumerate() {
                    for k in 0..dets.len() {
                        if dets.len() > 1 {
                            let mut s2 = scenes.clone();
                            s2[j].1.remove(k);
                            let mut x = c.clone();
                            x.ops[i] = TOp::Batch { scenes: s2, consumer: *consumer };
                            v.push(x);
                        }
                    }
                }
                if *consumer != Consumer::Same {
                    let mut x = c.clone();
                    x.ops[i] = TOp::Batch { scenes: scenes.clone(), consumer: Consumer::Same };
                    v.push(x);
                }
            }
            _ => {}
        }
    }
    v
}

// ---------------------------------------------------------------------------
// engines

pub struct TrackerEngine {
    pub prop: &'static str,
}

fn world_opts(prop: &str, thorough: bool, r: &mut Rng) -> WorldOpts {
    let all = vec![Kind::Sort, Kind::BatchSort, Kind::VisualSort, Kind::BatchVisualSort];
    let sort_family = vec![Kind::Sort, Kind::BatchSort];
    let frames = if thorough { *r.pick(&[6usize, 12, 25, 60]) } else { *r.pick(&[4usize, 8, 14]) };
    match prop {
        "C01" => WorldOpts { kinds: all.clone(), max_frames: frames, max_scenes: 3, max_objects: 5, twins: true, lifecycle: true, batches: true, rotation: true, constraints: 1, features: true, stress: true, long_life: 0, lookalikes: true, wide: false, own_area: true, fast: false, late_bias: false },
        "C03" => WorldOpts { kinds: all.clone(), max_frames: frames, max_scenes: 3, max_objects: 4, twins: true, lifecycle: true, batches: true, rotation: false, constraints: 0, features: true, stress: false, long_life: 0, lookalikes: false, wide: true, own_area: true, fast: false, late_bias: false },
        "C13" => WorldOpts { kinds: all.clone(), max_frames: frames, max_scenes: 2, max_objects: 3, twins: false, lifecycle: true, batches: true, rotation: false, constraints: 0, features: true, stress: false, long_life: if thorough { 300 } else { 60 }, lookalikes: false, wide: false, own_area: true, fast: false, late_bias: false },
        "C12" => WorldOpts { kinds: vec![Kind::VisualSort, Kind::BatchVisualSort], max_frames: frames, max_scenes: 2, max_objects: 4, twins: false, lifecycle: false, batches: true, rotation: false, constraints: 0, features: true, stress: true, long_life: 0, lookalikes: true, wide: false, own_area: true, fast: false, late_bias: false },
        "C02" => WorldOpts { kinds: sort_family, max_frames: frames, max_scenes: 2, max_objects: 5, twins: false, lifecycle: false, batches: true, rotation: true, constraints: 0, features: false, stress: true, long_life: 0, lookalikes: false, wide: false, own_area: false, fast: true, late_bias: false },
        "C20" => WorldOpts { kinds: all.clone(), max_frames: frames, max_scenes: 3, max_objects: 4, twins: false, lifecycle: false, batches: true, rotation: false, constraints: 2, features: true, stress: true, long_life: 0, lookalikes: false, wide: false, own_area: false, fast: true, late_bias: true },
        "C04" => WorldOpts { kinds: all.clone(), max_frames: frames, max_scenes: 4, max_objects: 3, twins: false, lifecycle: true, batches: true, rotation: true, constraints: 1, features: true, stress: true, long_life: 0, lookalikes: false, wide: false, own_area: true, fast: true, late_bias: false },
        "C05" => WorldOpts { kinds: all.clone(), max_frames: frames, max_scenes: 3, max_objects: 5, twins: false, lifecycle: true, batches: true, rotation: true, constraints: 1, features: true, stress: true, long_life: 0, lookalikes: true, wide: true, own_area: true, fast: false, late_bias: false },
        _ => WorldOpts { kinds: vec![Kind::BatchSort, Kind::BatchVisualSort], max_frames: frames, max_scenes: 4, max_objects: 3, twins: false, lifecycle: true, batches: true, rotation: true, constraints: 1, features: true, stress: true, long_life: 0, lookalikes: false, wide: true, own_area: true, fast: false, late_bias: true },
    }
}

fn strip_ops(c: &mut TrackerCase, drop_clear: bool, drop_empty_predicts: bool) {
    c.ops.retain(|op| match op {
        TOp::ClearWasted => !drop_clear,
        TOp::Predict { dets, .. } => !(drop_empty_predicts && dets.is_empty()),
        _ => true,
    });
}

impl TrackerEngine {
    fn gen_case(&self, seed: u64, thorough: bool) -> TrackerCase {
        let mut r = Rng::new(mix(seed, 0x71));
        let o = world_opts(self.prop, thorough, &mut r);
        let mut c = gen_tracker_case(mix(seed, 0x72), &o);
        match self.prop {
            // effects of clear_wasted are legitimately tied to physical collection,
            // which the compared runs are allowed to time differently
            // (empty calls cannot be expressed in a batch request; simple trackers keep them)
            "C04" => {
                let batch = c.cfg.kind.is_batch();
                strip_ops(&mut c, true, batch)
            }
            "C06" => strip_ops(&mut c, true, true),
            "C05" | "C20" | "C02" => strip_ops(&mut c, false, false),
            "C12" | "C13" => {
                // batch kinds are also compared with their simple twin: empty calls (which a batch
                // request cannot express, and which advance the epoch of a simple tracker) go
                let batch = c.cfg.kind.is_batch();
                // (C13 has lifecycle calls: clear_wasted goes too, as in C06 - what it drops
                // depends on when the periodic collection ran)
                strip_ops(&mut c, batch && self.prop == "C13", batch)
            }
            _ => {}
        }
        if self.prop == "C06" && r.chance(1, 8) {
            // shutdown with results in flight: only legal as the very last operation
            if let Some(TOp::Batch { scenes, .. }) = c.ops.iter().rev().find(|o| matches!(o, TOp::Batch { .. })).cloned() {
                let k = r.below(scenes.len() as u64) as usize;
                c.ops.push(TOp::Batch { scenes, consumer: Consumer::DropAfter(k) });
            }
        }
        c
    }
}

fn scenes_of(c: &TrackerCase) -> BTreeSet<u64> {
    c.ops
        .iter()
        .flat_map(|o| match o {
            TOp::Predict { scene, .. } => vec![*scene],
            TOp::Batch { scenes, .. } => scenes.iter().map(|s| s.0).collect(),
            _ => vec![],
        })
        .collect()
}

/// projection of a history onto one scene (C04)
fn project(base: &TrackerCase, s: u64, var: &Value, upto: usize) -> TrackerCase {
    let mut c = base.clone();
    c.cfg.shards = var["shards"].as_u64().unwrap_or(1) as usize;
    let mut ops = vec![];
    for (i, op) in base.ops.iter().enumerate() {
        if i >= upto {
            break;
        }
        let o2 = match op {
            TOp::Predict { scene, .. } if *scene == s => Some(op.clone()),
            TOp::Predict { .. } => None,
            TOp::Batch { scenes, consumer } => {
                let f: Vec<_> = scenes.iter().filter(|x| x.0 == s).cloned().collect();
                if f.is_empty() {
                    None
                } else {
                    Some(TOp::Batch { scenes: f, consumer: *consumer })
                }
            }
            TOp::Skip { scene, .. } if *scene == s => Some(op.clone()),
            TOp::Skip { .. } => None,
            TOp::Idle { scene } if *scene == s => Some(op.clone()),
            TOp::Idle { .. } => None,
            TOp::Epoch { scene } if *scene == s => Some(op.clone()),
            TOp::Epoch { .. } => None,
            TOp::Wasted => Some(op.clone()),
            TOp::SetAutoWaste(_) => Some(TOp::SetAutoWaste(var["periodicity"].as_u64().unwrap_or(100) as usize)),
            TOp::Stats | TOp::ClearWasted => None,
        };
        if let Some(o2) = o2 {
            ops.push(o2);
        }
    }
    c.ops = ops;
    c
}

fn report(prop: &str, clause: &str, op: &str, detail: &str, msg: String) -> Violation {
    Violation::new(prop, clause, op, detail, msg)
}

impl Engine for TrackerEngine {
    fn property(&self) -> &'static str {
        self.prop
    }

    fn gen(&self, seed: u64, thorough: bool) -> Value {
        let c = self.gen_case(seed, thorough);
        let mut r = Rng::new(mix(seed, 0x73));
        let calm = r.below(1000) < self.calm_permille();
        // variant parameters of the differential checks are part of the case
        let variants: Vec<Value> = match self.prop {
            "C05" => (0..if thorough { 5 } else { 3 }).map(|_| json!({"shards": r.range(1, 8)})).collect(),
            "C03" => (0..2).map(|_| json!({"periodicity": *r.pick(&[0usize, 1, 2, 3, 7, 100])})).collect(),
            "C04" => vec![json!({"shards": r.range(1, 8), "periodicity": *r.pick(&[0usize, 1, 3, 100])})],
            "C06" => vec![json!({"shards": r.range(1, 4)})],
            _ => vec![],
        };
        json!({ "tracker": serde_json::to_value(&c).unwrap(), "calm": calm, "variants": variants })
    }

    fn gen_indexed(&self, index: u64, seed: u64, thorough: bool) -> Value {
        if self.prop != "C03" {
            return self.gen(seed, thorough);
        }
        // small-scope lifecycle sub-batch (see systematic.rs): after the random runs in the
        // quick tier (their indices and cases stay what they were), first in the thorough tier
        // quick: every history of <= 2 operations; thorough: every history of <= 3 and one of
        // every 8 consecutive histories of 4 (which one depends on the seed)
        let len = if thorough { 4 } else { 2 };
        let full = systematic::total(if thorough { 3 } else { 2 });
        let sys = self.systematic_runs(thorough);
        let random = self.random_runs(thorough);
        let sys_index = if thorough {
            if index >= sys {
                return self.gen(seed, thorough);
            }
            if index < full {
                index
            } else {
                full + (index - full) * 8 + seed % 8
            }
        } else {
            if index < random {
                return self.gen(seed, thorough);
            }
            index - random
        };
        let c = systematic::case(sys_index, len);
        let mut r = Rng::new(mix(seed, 0x73));
        let variants: Vec<Value> = vec![json!({"periodicity": *r.pick(&[0usize, 1, 2, 100])})];
        json!({ "tracker": serde_json::to_value(&c).unwrap(), "calm": index % 4 == 0, "variants": variants, "systematic": true })
    }

    fn run(&self, case: &Value, plan: &SchedPlan) -> Outcome {
        let tc: TrackerCase = serde_json::from_value(case["tracker"].clone()).expect("tracker case");
        let variants: Vec<Value> = case["variants"].as_array().cloned().unwrap_or_default();
        let mut out = Outcome::default();
        if case["systematic"].as_bool().unwrap_or(false) {
            out.stats.probe("small_scope_enumerated_histories", 1);
        }
        let mut plan = plan.clone();
        plan.calm = case["calm"].as_bool().unwrap_or(false);
        let prop = self.prop;
        // C12 on a batch tracker: the decisions of the simple twin (which RefVisual validates step
        // by step) are the specification also where the batch run itself cannot be re-derived
        // (pipelined batches whose galleries are not observable)
        let differential = matches!(prop, "C04" | "C05" | "C06" | "C20")
            || (prop == "C03" && !variants.is_empty())
            || (matches!(prop, "C12" | "C13") && tc.cfg.kind.is_batch());
        // exec 0: the history itself (reference configuration for differentials)
        let mut base = tc.clone();
        if prop == "C05" {
            base.cfg.shards = 1;
        }
        if prop == "C05" || prop == "C04" {
            // the run that supplies the tie filter needs physical snapshots after every
            // batch, i.e. results read by the submitting thread; who reads the results
            // must not matter, and the other executions keep their consumer threads
            for op in base.ops.iter_mut() {
                if let TOp::Batch { consumer, .. } = op {
                    *consumer = Consumer::Same;
                }
            }
        }
        let (h0, abort) = exec_tracker(&mut out, &plan, 0, prop == "C05", &base, true);
        if !abort.is_empty() {
            let msg0 = abort[0].msg.clone();
            out.violation = own(&mut out, prop, abort);
            if prop == "C04" && out.violation.is_none() {
                // the interleaved run died: scenes interfere if every scene on its own runs fine
                let var = variants.first().cloned().unwrap_or(json!({}));
                let scenes = scenes_of(&base);
                if scenes.len() >= 2 {
                    let mut all_fine = true;
                    for (si, s) in scenes.iter().enumerate() {
                        let c = project(&base, *s, &var, base.ops.len());
                        if c.ops.is_empty() {
                            continue;
                        }
                        let (_, a) = exec_tracker(&mut out, &plan, 1 + si, false, &c, false);
                        if !a.is_empty() {
                            all_fine = false;
                        }
                    }
                    if all_fine {
                        out.violation = Some(report("C04", "scene-interference", "interleaved-run", "aborts-while-single-scene-runs-complete",
                            format!("the interleaved multi-scene run aborted ({msg0}) although every single-scene projection runs to completion")));
                    }
                }
            }
            return out;
        }
        let Some(h0) = h0 else { return out };
        let w0 = walk(&base, &h0);
        absorb_walk(&mut out, &w0.stats);
        if let Some(v) = own(&mut out, prop, w0.violations.clone()) {
            out.violation = Some(v);
            return out;
        }
        if !differential {
            return out;
        }
        if !w0.violations.is_empty() {
            // clauses owned by other properties failed in this run; the differential
            // comparison below is still sound (it only reports differences between runs)
            out.stats.probe("differential_run_with_foreign_clause_failures", 1);
        }
        // compare only up to the first step whose optimal assignment is not unique
        // by a margin: ties may legitimately resolve differently
        let upto = w0.stats.first_ambiguous_op.unwrap_or(base.ops.len());
        if upto < base.ops.len() {
            out.stats.probe("differential_truncated_at_ambiguous_step", 1);
        }
        let simple = !base.cfg.kind.is_batch();
        match prop {
            "C05" => {
                let c0 = canon(&base, &h0, upto, None, !simple);
                for (vi, var) in variants.iter().enumerate() {
                    let mut c = tc.clone();
                    c.cfg.shards = var["shards"].as_u64().unwrap_or(1) as usize;
                    let (h, abort) = exec_tracker(&mut out, &plan, 1 + vi, false, &c, false);
                    if let Some(a) = abort.first().cloned() {
                        out.violation = own(&mut out, prop, abort).or_else(|| {
                            Some(report("C05", "variant-aborted", "run", "abort", format!("variant with {} shards aborted: {}", c.cfg.shards, a.msg)))
                        });
                        return out;
                    }
                    let Some(h) = h else { continue };
                    let c1 = canon(&c, &h, upto, None, !simple);
                    if let Some((i, d, kind)) = first_diff(&c0.events, &c1.events, false) {
                        out.violation = Some(report("C05", "schedule-or-shard-dependent", if simple { "simple-tracker" } else { "batch-tracker" }, kind,
                            format!("reference (1 shard, run-to-block) and variant ({} shards, {:?}) differ at event {i}: {d}", c.cfg.shards, out.execs.last().map(|e| &e.spec.mode))));
                        return out;
                    }
                }
            }
            "C03" => {
                // GC timing must be unobservable: same history under other periodicities
                let mut b2 = base.clone();
                strip_ops(&mut b2, true, false);
                let need_rerun = b2.ops.len() != base.ops.len();
                let (hb, c_base) = if need_rerun {
                    let (h, abort) = exec_tracker(&mut out, &plan, 1, false, &b2, false);
                    if !abort.is_empty() || h.is_none() {
                        return out;
                    }
                    (h.unwrap(), b2.clone())
                } else {
                    (h0.clone(), base.clone())
                };
                let upto2 = if need_rerun { walk(&c_base, &hb).stats.first_ambiguous_op.unwrap_or(c_base.ops.len()) } else { upto };
                let c0 = canon(&c_base, &hb, upto2, None, true);
                for (vi, var) in variants.iter().enumerate() {
                    let p = var["periodicity"].as_u64().unwrap_or(0) as usize;
                    let mut c = c_base.clone();
                    // same operation list, GC plan replaced
                    for op in c.ops.iter_mut() {
                        if let TOp::SetAutoWaste(x) = op {
                            *x = p;
                        }
                    }
                    c.ops.insert(0, TOp::SetAutoWaste(p));
                    let (h, abort) = exec_tracker(&mut out, &plan, 2 + vi, false, &c, false);
                    if !abort.is_empty() {
                        continue;
                    }
                    let Some(mut h) = h else { continue };
                    // drop the inserted op so that indices line up
                    h.remove(0);
                    c.ops.remove(0);
                    let c1 = canon(&c, &h, upto2, None, true);
                    if let Some((i, d, kind)) = first_diff(&c0.events, &c1.events, false) {
                        out.violation = Some(report("C03", "gc-timing-observable", "periodicity-variant", kind,
                            format!("same history, auto-waste periodicity {p}: observable results differ at event {i}: {d}")));
                        return out;
                    }
                }
            }
            "C04" => {
                let var = variants.first().cloned().unwrap_or(json!({}));
                let scenes = scenes_of(&base);
                if scenes.len() < 2 {
                    return out;
                }
                for (si, s) in scenes.iter().enumerate() {
                    let c = project(&base, *s, &var, upto);
                    if c.ops.is_empty() {
                        continue;
                    }
                    let (h, abort) = exec_tracker(&mut out, &plan, 1 + si, false, &c, false);
                    if !abort.is_empty() {
                        out.violation = own(&mut out, prop, abort);
                        if out.violation.is_some() {
                            return out;
                        }
                        continue;
                    }
                    let Some(h) = h else { continue };
                    let ca = canon(&base, &h0, upto, Some(*s), true);
                    let cb = canon(&c, &h, c.ops.len(), Some(*s), true);
                    // a wasted() call that returns nothing for this scene produces an
                    // event in both streams (possibly empty set) - positions line up
                    if let Some((i, d, kind)) = first_diff(&ca.events, &cb.events, true) {
                        out.violation = Some(report("C04", "scene-interference", "projection", kind,
                            format!("scene {s}: interleaved run and single-scene projection differ at event {i}: {d}")));
                        return out;
                    }
                }
            }
            "C06" | "C12" | "C13" => {
                // the simple twin is the specification
                let mut c = base.clone();
                c.cfg.kind = base.cfg.kind.simple_twin();
                c.cfg.shards = variants.first().and_then(|v| v["shards"].as_u64()).unwrap_or(1) as usize;
                let (h, abort) = exec_tracker(&mut out, &plan, 1, true, &c, true);
                if !abort.is_empty() {
                    out.stats.probe("twin_aborted", 1);
                    return out;
                }
                let Some(h) = h else { return out };
                let wt = walk(&c, &h);
                // the simple tracker is the specification: where ITS step is uniquely
                // determined the batch tracker must agree, whatever the batch run's own
                // (possibly snapshot-less) view says
                let _ = upto;
                let upto = wt.stats.first_ambiguous_op.unwrap_or(c.ops.len());
                // a dropped-early batch ends the comparable prefix
                let upto = base
                    .ops
                    .iter()
                    .position(|o| matches!(o, TOp::Batch { consumer: Consumer::DropAfter(_), .. }))
                    .map(|p| p.min(upto))
                    .unwrap_or(upto);
                let ca = canon(&base, &h0, upto, None, true);
                let cb = canon(&c, &h, upto, None, true);
                if let Some((i, d, kind)) = first_diff(&ca.events, &cb.events, false) {
                    let clause = match prop {
                        "C12" => "batch-decisions-differ-from-simple",
                        "C13" => "batch-histories-differ-from-simple",
                        _ => "batch-differs-from-simple",
                    };
                    out.violation = Some(report(prop, clause, "twin", kind,
                        format!("batch tracker ({} distance shards, {} voting threads) and simple tracker differ at event {i}: {d}", base.cfg.shards, base.cfg.voting_shards)));
                    return out;
                }
            }
            "C20" => {
                // a table that no pair violates must change nothing
                if base.cfg.constraints.is_some() {
                    let mut c = base.clone();
                    c.cfg.constraints = None;
                    let (h, abort) = exec_tracker(&mut out, &plan, 1, false, &c, false);
                    if !abort.is_empty() {
                        return out;
                    }
                    let Some(h) = h else { return out };
                    let w = walk(&c, &h);
                    // only meaningful when the table of `base` never bound
                    if w0.stats.constraint_binding == 0 {
                        let upto = upto.min(w.stats.first_ambiguous_op.unwrap_or(c.ops.len()));
                        let ca = canon(&base, &h0, upto, None, !simple);
                        let cb = canon(&c, &h, upto, None, !simple);
                        out.stats.probe("nonbinding_table_differentials", 1);
                        if let Some((i, d, kind)) = first_diff(&ca.events, &cb.events, false) {
                            out.violation = Some(report("C20", "nonbinding-table-changes-result", "table-vs-none", kind,
                                format!("constraints {:?} never bind, yet results differ from the unconstrained run at event {i}: {d}", base.cfg.constraints)));
                            return out;
                        }
                    }
                } else {
                    // derive a table that cannot bind: limits far above every distance
                    let mut c = base.clone();
                    c.cfg.constraints = Some(vec![(1, 1.0e6), (3, 2.0e6), (100, 3.0e6)]);
                    let (h, abort) = exec_tracker(&mut out, &plan, 1, false, &c, false);
                    if !abort.is_empty() {
                        return out;
                    }
                    let Some(h) = h else { return out };
                    let ca = canon(&base, &h0, upto, None, !simple);
                    let cb = canon(&c, &h, upto, None, !simple);
                    out.stats.probe("nonbinding_table_differentials", 1);
                    if let Some((i, d, kind)) = first_diff(&ca.events, &cb.events, false) {
                        out.violation = Some(report("C20", "nonbinding-table-changes-result", "none-vs-huge-table", kind,
                            format!("a table with limits >= 1e6 changes the results at event {i}: {d}")));
                        return out;
                    }
                }
            }
            _ => {}
        }
        out
    }

    fn shrink(&self, case: &Value) -> Vec<Value> {
        let tc: TrackerCase = serde_json::from_value(case["tracker"].clone()).expect("tracker case");
        let mut v: Vec<Value> = vec![];
        if let Some(vars) = case["variants"].as_array() {
            if vars.len() > 1 {
                for i in 0..vars.len() {
                    let mut v2 = vars.clone();
                    v2.remove(i);
                    v.push(json!({"tracker": case["tracker"], "calm": case["calm"], "variants": v2}));
                }
            }
        }
        v.extend(
            shrink_tracker_case(&tc)
                .into_iter()
                .map(|c| json!({"tracker": serde_json::to_value(&c).unwrap(), "calm": case["calm"], "variants": case["variants"]})),
        );
        v
    }

    fn rule(&self) -> String {
        let common = "distinct = distinct combined interleaving hash (task, event kind, source line in global order) of all executions of the evaluation; non-trivial = at least two API operations and at least one context switch between caller, store workers and voting threads";
        match self.prop {
            "C01" => format!("one evaluation = one generated multi-scene detection history (objects doing random walks, crowds, exact twins, empty calls, rotation, features) with lifecycle calls, executed on one of the four real trackers under one seeded schedule; every returned record is checked against the output contract and the stored track. {common}"),
            "C02" => format!("one evaluation = one generated history on Sort/BatchSort (IoU or Mahalanobis); every call is re-derived from the observable pre-state by RefSort (independent f64 geometry/Kalman, brute-force optimal assignment) and asserted when margins allow. {common}"),
            "C03" => format!("one evaluation = one generated history with lifecycle calls on one of the four trackers under a seeded schedule, checked by the lifecycle/conservation model after every operation, plus re-executions of the same history under other auto-waste periodicities whose observable results must be identical; the batch ends (quick) / starts (thorough) with the small-scope sub-batch of trackersim/systematic.rs: every lifecycle history of <=2 / <=3 operations (thorough: plus a seeded eighth of those with 4) over a 15-operation alphabet (two scenes in the same image region) for the four trackers and max_idle 0, 1, 2. {common}"),
            "C04" => format!("one evaluation = one interleaved multi-scene history on one of the four trackers plus one execution per scene of its projection (fresh tracker, other shard count, schedule, hash seed, GC plan); canonical per-scene streams must be equal. {common}"),
            "C05" => format!("one evaluation = reference execution (1 shard, run-to-block schedule) plus 3 (quick) or 5 (thorough) variants with 1..8 shards under swarm schedules, fresh hash seeds and candidate-id streams; record streams must be identical (ids included for simple trackers, up to renaming for batch trackers) up to the first step with a non-unique optimum. {common}"),
            "C13" => format!("one evaluation = one generated history (incl. long single-object lifetimes, quality sequences increasing / decreasing / constant / random around the collect threshold, features present or absent, history lengths 1..10, max observations 1..6) on one of the four trackers; after every quiescent operation every stored track's box/feature histories and appearance gallery are compared with the per-track model, as are the tracks returned by wasted(). {common}"),
            "C12" => format!("one evaluation = one generated history on VisualSort/BatchVisualSort over an option swarm (metric, thresholds, min votes, minimal track length, max observations, use/collect quality, minimal area) with look-alike objects; every call's appearance claims, contests and the positional remainder are re-derived from the observable galleries by RefVisual and asserted outside margins. {common}"),
            "C06" => format!("one evaluation = one batch history on BatchSort or BatchVisualSort (1..8 distance shards, 1..4 voting threads, consumer on same/other/late thread, early drop at shutdown) plus the same history on the simple twin (Sort / VisualSort); canonical streams equal; shuttle's deadlock detector and the step bound decide bounded liveness. {common}"),
            _ => format!("one evaluation = one generated history on Sort/BatchSort with a random constraint table: RefSort applies an independent table implementation per call, and a run with a non-binding table is compared with the table-free run. {common}"),
        }
    }

    fn assumptions(&self) -> Vec<String> {
        vec![
            "threads, Mutex/RwLock/Condvar are shuttle's models of std; crossbeam channels are the FIFO model in /verif/shims/crossbeam".into(),
            "oracle assertions that depend on thresholds are made only outside robustness margins (ambiguous steps are counted, not asserted)".into(),
            "batch results are retrieved before the next lifecycle call, or by another thread, or dropped only at shutdown".into(),
            "sampling, not proof".into(),
        ]
    }

    fn runs(&self, thorough: bool) -> u64 {
        self.random_runs(thorough) + self.systematic_runs(thorough)
    }
}

impl TrackerEngine {
    fn systematic_runs(&self, thorough: bool) -> u64 {
        if self.prop != "C03" {
            0
        } else if thorough {
            systematic::total(3) + systematic::count(4) / 8
        } else {
            systematic::total(2)
        }
    }
    fn random_runs(&self, thorough: bool) -> u64 {
        match (self.prop, thorough) {
            ("C01", false) => 4500,
            ("C01", true) => 150_000,
            ("C02", false) => 5000,
            ("C02", true) => 150_000,
            ("C03", false) => 2000,
            ("C03", true) => 100_000,
            ("C04", false) => 3000,
            ("C04", true) => 60_000,
            ("C05", false) => 1000,
            ("C05", true) => 50_000,
            ("C06", false) => 2000,
            ("C06", true) => 50_000,
            ("C13", false) => 1500,
            ("C13", true) => 25_000,
            ("C12", false) => 4000,
            ("C12", true) => 100_000,
            (_, false) => 3000,
            (_, true) => 80_000,
        }
    }
}
