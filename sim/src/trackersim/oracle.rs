//! The tracker-level oracle: walks a recorded history with a small lifecycle /
//! conservation model (C01 C03 C04-attach C06-structure) and, for SORT-family
//! trackers, re-derives every association with RefSort (C02 C20).
//! Each failed clause is tagged with the property it belongs to; an engine only
//! reports clauses of its own property.

use super::case::*;
use super::drive::*;
use super::geom::*;
use super::refsort::*;
use crate::common::Violation;
use std::collections::{BTreeMap, BTreeSet};

#[derive(Clone, Debug, PartialEq)]
pub enum Place {
    Live,
    Collected,
    HandedOut,
    Cleared,
}

#[derive(Clone, Debug)]
pub struct MTrack {
    pub id: u64,
    pub scene: u64,
    pub length: usize,
    pub last_epoch: usize,
    pub place: Place,
    pub last_pred: BoxF,
    pub last_obs: BoxF,
    pub custom: Option<i64>,
    pub kf: Option<Kf>,
    pub obs_hist: Vec<BoxF>,
    pub pred_hist: Vec<BoxF>,
    pub feat_hist: Vec<Option<Vec<f32>>>,
    /// stored appearance features as of the last physical snapshot (None = unknown)
    /// `place` Live/Collected reflects the last physical snapshot
    pub place_known: bool,
    pub gallery: Option<Vec<(Vec<f32>, f32)>>,
    /// updates since the last physical snapshot: (feature (padded), quality, must be collected)
    pub pending: Vec<(Option<Vec<f32>>, f32, bool)>,
}

impl MTrack {
    pub fn in_tracker(&self) -> bool {
        matches!(self.place, Place::Live | Place::Collected)
    }
}

pub fn pad8(f: &[f32]) -> Vec<f32> {
    let mut v = f.to_vec();
    while v.len() % 8 != 0 {
        v.push(0.0);
    }
    v
}

#[derive(Default, Clone, Debug)]
pub struct WalkStats {
    pub predict_calls: u64,
    pub detections: u64,
    pub continuations: u64,
    pub new_tracks: u64,
    pub asserted_steps: u64,
    pub ambiguous_steps: u64,
    pub greedy_differs: u64,
    pub gated_but_unassigned: u64,
    pub expiry_while_physically_live: u64,
    pub wasted_multi: u64,
    pub idle_nonempty: u64,
    pub constraint_binding: u64,
    pub kf_mismatch: u64,
    pub epochs: u64,
    pub first_ambiguous_op: Option<usize>,
    pub visual_records: u64,
    pub near_gate_open: u64,
    pub near_gate_closed: u64,
    pub multi_choice_steps: u64,
    pub rv_asserted: u64,
    pub rv_ambiguous: u64,
    pub rv_visual_attach: u64,
    pub rv_contests: u64,
    pub rv_losers: u64,
    pub rv_fallback_rows: u64,
    pub rv_track_too_short: u64,
    pub rv_unusable_quality: u64,
    pub rv_unusable_area: u64,
    pub rv_votes_below_min: u64,
    pub rv_unusable_own_area: u64,
}

pub struct Walk {
    pub violations: Vec<Violation>,
    pub stats: WalkStats,
}

struct Model<'a> {
    cfg: &'a TrkCfg,
    epochs: BTreeMap<u64, usize>,
    tracks: BTreeMap<u64, MTrack>,
    issued: BTreeSet<u64>,
    total_dets: u64,
    violations: Vec<Violation>,
    stats: WalkStats,
}

fn box_eq(a: &BoxF, b: &BoxF) -> bool {
    a.xc == b.xc && a.yc == b.yc && a.angle == b.angle && a.aspect == b.aspect && a.height == b.height
}

fn box_close(a: &BoxF, b: &BoxF, tol: f64) -> bool {
    let c = |x: f32, y: f32| ((x - y).abs() as f64) <= tol * (1.0 + x.abs().max(y.abs()) as f64);
    c(a.xc, b.xc)
        && c(a.yc, b.yc)
        && c(a.angle.unwrap_or(0.0), b.angle.unwrap_or(0.0))
        && c(a.aspect, b.aspect)
        && c(a.height, b.height)
}

impl<'a> Model<'a> {
    fn v(&mut self, prop: &str, clause: &str, op: &str, detail: &str, msg: String) {
        // keep the first violation per property
        if !self.violations.iter().any(|x| x.property == prop) {
            self.violations.push(Violation::new(prop, clause, op, detail, msg));
        }
    }

    fn epoch(&self, scene: u64) -> usize {
        self.epochs.get(&scene).cloned().unwrap_or(0)
    }

    fn expired(&self, t: &MTrack) -> bool {
        self.epoch(t.scene) > t.last_epoch + self.cfg.max_idle
    }

    /// The model does NOT predict when the tracker physically moves expired tracks
    /// to its wasted store (the property says that timing is unobservable, and a
    /// change of it must not raise an alarm): physical placement is read from the
    /// snapshots and only constrained (see check_phys).
    fn collect(&mut self) {}

    fn tick(&mut self) {}

    fn scene_call(&mut self, op: &str, opi: usize, scene: u64, dets: &[Det], recs: &[Rec]) {
        let e = self.epoch(scene) + 1;
        self.epochs.insert(scene, e);
        self.stats.epochs += 1;
        self.stats.predict_calls += 1;
        self.stats.detections += dets.len() as u64;
        self.total_dets += dets.len() as u64;
        if recs.len() != dets.len() {
            self.v("C01", "count", op, "records!=detections",
                format!("op {opi} scene {scene}: {} detections submitted, {} records returned", dets.len(), recs.len()));
            return;
        }
        let mut seen = BTreeSet::new();
        for (i, (d, r)) in dets.iter().zip(recs.iter()).enumerate() {
            if !box_eq(&d.b, &r.obs) || d.b.conf != r.obs.conf {
                self.v("C01", "echo", op, "observed-box",
                    format!("op {opi} scene {scene} det {i}: record echoes {:?}, submitted {:?}", r.obs, d.b));
            }
            if d.custom != r.custom {
                self.v("C01", "echo", op, "custom-id",
                    format!("op {opi} scene {scene} det {i}: custom id {:?} != submitted {:?}", r.custom, d.custom));
            }
            if r.scene != scene {
                self.v("C01", "echo", op, "scene",
                    format!("op {opi} det {i}: record scene {} != submitted scene {scene}", r.scene));
            }
            if r.epoch != e {
                self.v("C01", "epoch", op, "record-epoch",
                    format!("op {opi} scene {scene} det {i}: record epoch {} != scene epoch {e}", r.epoch));
            }
            if !seen.insert(r.id) {
                self.v("C01", "distinct-ids", op, "same-id-twice",
                    format!("op {opi} scene {scene}: track id {} given to two detections of one call", r.id));
            }
            if r.visual {
                self.stats.visual_records += 1;
            }
        }
        // RefSort (pre-state!) for SORT-family trackers
        if !self.cfg.kind.is_visual() {
            self.refsort_check(op, opi, scene, e, dets, recs);
        } else {
            // RefVisual also decides whether the step could involve a tie
            if !self.refvisual_check(op, opi, scene, e, dets, recs) {
                self.stats.ambiguous_steps += 1;
                if self.stats.first_ambiguous_op.is_none() {
                    self.stats.first_ambiguous_op = Some(opi);
                }
            }
        }
        let shares = self.own_shares(dets);
        // a share within the margin of the collect threshold makes the gallery
        // transition of that track unassertable: handled by marking it unknown below
        // lifecycle classification + model update
        for (i, (d, r)) in dets.iter().zip(recs.iter()).enumerate() {
            let known = self.tracks.get(&r.id).cloned();
            match known {
                Some(mt) => {
                    if mt.scene != scene {
                        self.v("C04", "cross-scene-attach", op, "other-scene-track",
                            format!("op {opi}: detection {i} of scene {scene} attached to track {} of scene {}", r.id, mt.scene));
                        continue;
                    }
                    let gap = e - mt.last_epoch;
                    if mt.place == Place::HandedOut || mt.place == Place::Cleared {
                        self.v("C03", "dead-track-continued", op, "not-live",
                            format!("op {opi} scene {scene}: detection {i} continues track {} which is {:?}", r.id, mt.place));
                        continue;
                    }
                    if gap > self.cfg.max_idle {
                        self.v("C03", "expired-continued", op, "gap>max_idle",
                            format!("op {opi} scene {scene}: detection {i} continues track {} last updated at epoch {} (now {e}, max idle {})", r.id, mt.last_epoch, self.cfg.max_idle));
                    }
                    if r.length != mt.length + 1 {
                        self.v("C01", "length", op, "continuation",
                            format!("op {opi} scene {scene}: track {} reports length {}, {} detections attached", r.id, r.length, mt.length + 1));
                    }
                    self.stats.continuations += 1;
                    let t = self.tracks.get_mut(&r.id).unwrap();
                    t.length += 1;
                    t.last_epoch = e;
                    t.last_pred = r.pred.clone();
                    t.last_obs = r.obs.clone();
                    t.custom = d.custom;
                    t.obs_hist.push(d.b.clone());
                    t.pred_hist.push(r.pred.clone());
                    t.feat_hist.push(d.feature.clone());
                    let collectable = match &self.cfg.visual {
                        Some(v) => {
                            let share_ok = match shares.get(i).cloned().flatten() {
                                Some(sh) => sh >= v.own_collect as f64,
                                None => true,
                            };
                            d.feature.is_some() && d.b.area() >= v.min_area as f64 && d.quality.unwrap_or(1.0) >= v.q_collect && share_ok
                        }
                        None => false,
                    };
                    t.pending.push((d.feature.as_ref().map(|f| pad8(f)), d.quality.unwrap_or(1.0), collectable));
                    if let (Some(v), Some(Some(sh))) = (&self.cfg.visual, shares.get(i)) {
                        if (sh - v.own_collect as f64).abs() < 2e-3 {
                            t.gallery = None;
                        }
                    }
                    if let Some(k) = t.kf.as_mut() {
                        k.predict();
                        k.update(&d.b);
                    }
                }
                None => {
                    if self.issued.contains(&r.id) {
                        self.v("C01", "fresh-id", op, "reissued",
                            format!("op {opi} scene {scene}: new track got id {} which was issued before", r.id));
                    }
                    if r.length != 1 {
                        self.v("C01", "length", op, "new-track",
                            format!("op {opi} scene {scene}: new track {} reports length {}", r.id, r.length));
                    }
                    self.stats.new_tracks += 1;
                    let mut kf = Kf::initiate(&d.b, self.cfg.pos_w as f64, self.cfg.vel_w as f64);
                    kf.predict();
                    kf.update(&d.b);
                    self.tracks.insert(
                        r.id,
                        MTrack {
                            id: r.id,
                            scene,
                            length: 1,
                            last_epoch: e,
                            place: Place::Live,
                            place_known: true,
                            last_pred: r.pred.clone(),
                            last_obs: r.obs.clone(),
                            custom: d.custom,
                            kf: Some(kf),
                            obs_hist: vec![d.b.clone()],
                            pred_hist: vec![r.pred.clone()],
                            feat_hist: vec![d.feature.clone()],
                            gallery: Some(vec![]),
                            pending: vec![(d.feature.as_ref().map(|f| pad8(f)), d.quality.unwrap_or(1.0), d.feature.is_some())],
                        },
                    );
                }
            }
            self.issued.insert(r.id);
            // the library's estimate vs the reference filter (validates the reference;
            // a mismatch only disables assertions that depend on it)
            if let Some(t) = self.tracks.get(&r.id) {
                if let Some(k) = &t.kf {
                    if !box_close(&k.boxf(r.pred.conf), &r.pred, 2e-3) {
                        self.stats.kf_mismatch += 1;
                        self.tracks.get_mut(&r.id).unwrap().kf = None;
                    }
                }
            }
        }
    }

    /// Visual trackers have no RefSort assertion here; this only decides whether the
    /// step could involve a tie (for the differential checks): the positional matrix
    /// must be trivially unique (every detection and every track has at most one open
    /// pair, nothing near a threshold) and no track may have two potential appearance
    /// claimants, no detection two potential claims.
    fn visual_tie_filter(&mut self, opi: usize, scene: u64, e: usize, dets: &[Det]) {
        let cand: Vec<&MTrack> = self
            .tracks
            .values()
            .filter(|t| t.scene == scene && t.in_tracker() && e - t.last_epoch <= self.cfg.max_idle)
            .collect();
        let rts: Vec<RTrack> = cand
            .iter()
            .map(|t| RTrack { id: t.id, gap: e - t.last_epoch, pred: t.last_pred.clone(), kf: t.kf.clone() })
            .collect();
        let boxes: Vec<BoxF> = dets.iter().map(|d| d.b.clone()).collect();
        let mut ambiguous = false;
        if matches!(self.cfg.metric, PosMetric::Maha) && rts.iter().any(|t| t.kf.is_none()) {
            ambiguous = true;
        }
        if !ambiguous {
            let m = build_matrix(self.cfg, &boxes, &rts, true);
            if m.near_threshold {
                ambiguous = true;
            }
            let mut col = vec![0usize; rts.len()];
            for row in &m.pairs {
                let mut n = 0;
                for (j, p) in row.iter().enumerate() {
                    if matches!(p, Pair::Open(_)) {
                        n += 1;
                        col[j] += 1;
                    }
                }
                if n > 1 {
                    ambiguous = true;
                }
            }
            if col.iter().any(|c| *c > 1) {
                ambiguous = true;
            }
        }
        if !ambiguous {
            if let Some(v) = &self.cfg.visual {
                let mut claims_on = vec![0usize; cand.len()];
                for d in dets {
                    let Some(f) = &d.feature else { continue };
                    let mut mine = 0;
                    for (j, t) in cand.iter().enumerate() {
                        let Some(g) = &t.gallery else {
                            ambiguous = true;
                            continue;
                        };
                        let hit = g.iter().map(|x| &x.0).any(|s| {
                            let (mut dot, mut na, mut nb, mut sq) = (0.0f64, 0.0f64, 0.0f64, 0.0f64);
                            for i in 0..f.len().max(s.len()) {
                                let a = *f.get(i).unwrap_or(&0.0) as f64;
                                let b = *s.get(i).unwrap_or(&0.0) as f64;
                                dot += a * b;
                                na += a * a;
                                nb += b * b;
                                sq += (a - b) * (a - b);
                            }
                            if v.cosine {
                                dot / (na.sqrt() * nb.sqrt()).max(1e-12) >= v.threshold as f64 - 1e-3
                            } else {
                                sq.sqrt() <= v.threshold as f64 * 1.001 + 1e-4
                            }
                        });
                        if hit {
                            mine += 1;
                            claims_on[j] += 1;
                        }
                    }
                    if mine > 1 {
                        ambiguous = true;
                    }
                }
                if claims_on.iter().any(|c| *c > 1) {
                    ambiguous = true;
                }
            }
        }
        if ambiguous {
            self.stats.ambiguous_steps += 1;
            if self.stats.first_ambiguous_op.is_none() {
                self.stats.first_ambiguous_op = Some(opi);
            }
        }
    }

    /// exclusively-owned share of every detection of the call (None when the tracker
    /// is not configured to compute shares)
    fn own_shares(&self, dets: &[Det]) -> Vec<Option<f64>> {
        match &self.cfg.visual {
            Some(v) if v.own_use + v.own_collect > 0.0 => (0..dets.len())
                .map(|i| {
                    let others: Vec<&BoxF> = dets.iter().enumerate().filter(|(j, _)| *j != i).map(|(_, d)| &d.b).collect();
                    Some(uncovered_share(&dets[i].b, &others))
                })
                .collect(),
            _ => vec![None; dets.len()],
        }
    }

    fn check_histories(&mut self, op: &str, opi: usize, ti: &TInfo, what: &str) {
        let Some(mt) = self.tracks.get(&ti.id).cloned() else { return };
        let h = self.cfg.history;
        let tail = |n: usize| n.saturating_sub(h);
        let eo: Vec<&BoxF> = mt.obs_hist[tail(mt.obs_hist.len())..].iter().collect();
        let ep: Vec<&BoxF> = mt.pred_hist[tail(mt.pred_hist.len())..].iter().collect();
        let same = |a: &Vec<BoxF>, e: &Vec<&BoxF>| a.len() == e.len() && a.iter().zip(e.iter()).all(|(x, y)| box_eq(x, y) && x.conf == y.conf);
        if !same(&ti.obs_hist, &eo) {
            self.v("C13", "history", op, if ti.obs_hist.len() != eo.len() { "observed-length" } else { "observed-content" },
                format!("op {opi}: {what} track {} keeps observed boxes {:?}; the last min(length {}, history {}) arrivals are {:?}", ti.id, ti.obs_hist, mt.length, h, eo));
        }
        if !same(&ti.pred_hist, &ep) {
            self.v("C13", "history", op, if ti.pred_hist.len() != ep.len() { "predicted-length" } else { "predicted-content" },
                format!("op {opi}: {what} track {} keeps predicted boxes {:?}; expected {:?}", ti.id, ti.pred_hist, ep));
        }
        if let Some(fh) = &ti.feat_hist {
            let ef: Vec<Option<Vec<f32>>> = mt.feat_hist[tail(mt.feat_hist.len())..].iter().map(|f| f.as_ref().map(|x| pad8(x))).collect();
            if fh != &ef {
                self.v("C13", "history", op, if fh.len() != ef.len() { "feature-length" } else { "feature-content" },
                    format!("op {opi}: {what} track {} keeps feature history {:?}; expected {:?}", ti.id, fh, ef));
            }
        }
    }

    fn check_gallery(&mut self, op: &str, opi: usize, ti: &TInfo) {
        let Some(v) = self.cfg.visual.clone() else { return };
        let Some(g) = &ti.gallery else { return };
        let after: Vec<(Vec<f32>, f32)> = g.iter().filter_map(|x| x.feature.clone().map(|f| (f, x.quality))).collect();
        let mt = self.tracks.get(&ti.id).cloned().unwrap();
        if after.len() > v.max_obs {
            self.v("C13", "gallery-size", op, "exceeds-max-observations",
                format!("op {opi}: track {} stores {} features, visual_max_observations = {}", ti.id, after.len(), v.max_obs));
        }
        if ti.collected != Some(after.len()) {
            self.v("C13", "collected-count", op, "count!=stored",
                format!("op {opi}: track {} reports {:?} collected features, {} are stored", ti.id, ti.collected, after.len()));
        }
        if let Some(before) = &mt.gallery {
            if mt.pending.is_empty() {
                let mut a = after.clone();
                let mut b = before.clone();
                a.sort_by(|x, y| x.partial_cmp(y).unwrap());
                b.sort_by(|x, y| x.partial_cmp(y).unwrap());
                if a != b {
                    self.v("C13", "gallery", op, "changed-without-update",
                        format!("op {opi}: gallery of track {} changed although the track was not updated", ti.id));
                }
            } else if mt.pending.len() == 1 {
                let (feat, q, must) = mt.pending[0].clone();
                let mut rest = after.clone();
                let has_new = match &feat {
                    Some(f) => {
                        if let Some(i) = rest.iter().position(|(x, xq)| x == f && *xq == q) {
                            rest.remove(i);
                            true
                        } else {
                            false
                        }
                    }
                    None => false,
                };
                let is_new_track = mt.length == 1;
                if feat.is_some() && must && !has_new {
                    self.v("C13", "gallery", op, "feature-not-collected",
                        format!("op {opi}: track {}: the detection met the collect thresholds but its feature is not stored", ti.id));
                }
                if feat.is_some() && !must && has_new && !is_new_track {
                    self.v("C13", "gallery", op, "collected-below-threshold",
                        format!("op {opi}: track {}: feature with quality {q} stored although the collect thresholds are not met", ti.id));
                }
                // the rest must come from the old gallery, at most one removed, the lowest-quality one
                let mut old = before.clone();
                let mut ok = true;
                for x in &rest {
                    if let Some(i) = old.iter().position(|y| y == x) {
                        old.remove(i);
                    } else {
                        ok = false;
                    }
                }
                if !ok {
                    self.v("C13", "gallery", op, "unknown-feature-stored",
                        format!("op {opi}: track {} stores a feature that is neither old nor the new detection's", ti.id));
                } else if old.len() > 1 {
                    self.v("C13", "gallery", op, "more-than-one-evicted",
                        format!("op {opi}: track {}: {} stored features disappeared in one update", ti.id, old.len()));
                } else if old.len() == 1 {
                    let evq = old[0].1;
                    if before.len() < v.max_obs {
                        self.v("C13", "gallery", op, "evicted-below-capacity",
                            format!("op {opi}: track {}: a feature was evicted although only {} of {} slots were used", ti.id, before.len(), v.max_obs));
                    } else if rest.iter().any(|(_, rq)| *rq < evq) {
                        self.v("C13", "gallery", op, "evicted-not-lowest-quality",
                            format!("op {opi}: track {}: evicted a feature of quality {evq} while one of lower quality stays ({:?})", ti.id, rest.iter().map(|x| x.1).collect::<Vec<_>>()));
                    }
                }
            }
        }
        let t = self.tracks.get_mut(&ti.id).unwrap();
        t.gallery = Some(after);
        t.pending.clear();
    }

    /// RefVisual (C12): re-derive appearance claims, contests and the positional
    /// remainder from the observable galleries and assert the statement, not the
    /// implementation's incidental choices.
    fn refvisual_check(&mut self, op: &str, opi: usize, scene: u64, e: usize, dets: &[Det], recs: &[Rec]) -> bool {
        let Some(v) = self.cfg.visual.clone() else { return false };
        let cand: Vec<MTrack> = self
            .tracks
            .values()
            .filter(|t| t.scene == scene && t.in_tracker() && e - t.last_epoch <= self.cfg.max_idle)
            .cloned()
            .collect();
        let amb = |s: &mut WalkStats| s.rv_ambiguous += 1;
        if dets.len() > 7 || cand.len() > 9 || cand.iter().any(|t| t.gallery.is_none() || !t.pending.is_empty()) {
            amb(&mut self.stats);
            return false;
        }
        if matches!(self.cfg.metric, PosMetric::Maha) && cand.iter().any(|t| t.kf.is_none()) {
            amb(&mut self.stats);
            return false;
        }
        let rts: Vec<RTrack> = cand
            .iter()
            .map(|t| RTrack { id: t.id, gap: e - t.last_epoch, pred: t.last_pred.clone(), kf: t.kf.clone() })
            .collect();
        let boxes: Vec<BoxF> = dets.iter().map(|d| d.b.clone()).collect();
        let m = build_matrix(self.cfg, &boxes, &rts, true);
        let mut near = m.near_threshold;
        let (n, k) = (dets.len(), cand.len());
        // usability of each detection's feature
        let shares = self.own_shares(dets);
        let mut usable = vec![false; n];
        for (i, d) in dets.iter().enumerate() {
            let area = d.b.area();
            if (area - v.min_area as f64).abs() < 1e-3 * (1.0 + v.min_area as f64) {
                near = true;
            }
            let q = d.quality.unwrap_or(1.0);
            if (q - v.q_use).abs() < 1e-6 {
                near = true;
            }
            if d.feature.is_some() {
                if area < v.min_area as f64 {
                    self.stats.rv_unusable_area += 1;
                } else if q < v.q_use {
                    self.stats.rv_unusable_quality += 1;
                }
            }
            let share_ok = match shares[i] {
                Some(sh) => {
                    if (sh - v.own_use as f64).abs() < 2e-3 {
                        near = true;
                    }
                    sh >= v.own_use as f64
                }
                None => true,
            };
            if d.feature.is_some() && !share_ok {
                self.stats.rv_unusable_own_area += 1;
            }
            usable[i] = d.feature.is_some() && area >= v.min_area as f64 && q >= v.q_use && share_ok;
        }
        let fdist = |a: &[f32], b: &[f32]| -> f64 {
            let (mut dot, mut na, mut nb, mut sq) = (0.0f64, 0.0f64, 0.0f64, 0.0f64);
            for i in 0..a.len().max(b.len()) {
                let x = *a.get(i).unwrap_or(&0.0) as f64;
                let y = *b.get(i).unwrap_or(&0.0) as f64;
                dot += x * y;
                na += x * x;
                nb += y * y;
                sq += (x - y) * (x - y);
            }
            if v.cosine {
                dot / (na.sqrt() * nb.sqrt())
            } else {
                sq.sqrt()
            }
        };
        // within[i][j] = weights-to-be (distance values) of stored features within threshold
        let mut within: Vec<Vec<Vec<f64>>> = vec![vec![vec![]; k]; n];
        let mut maxd = -1.0f64;
        let thr = v.threshold as f64;
        for i in 0..n {
            if !usable[i] {
                continue;
            }
            let f = pad8(dets[i].feature.as_ref().unwrap());
            for j in 0..k {
                if m.pairs[i][j] == Pair::Forbidden {
                    continue;
                }
                let g = cand[j].gallery.as_ref().unwrap();
                if g.len() < v.min_track_len {
                    if !g.is_empty() {
                        self.stats.rv_track_too_short += 1;
                    }
                    continue;
                }
                for (gf, _) in g {
                    let d = fdist(&f, gf);
                    if (d - thr).abs() < 1e-4 * (1.0 + thr.abs()) {
                        near = true;
                    }
                    let ok = if v.cosine { d >= thr } else { d <= thr };
                    if ok {
                        let w = if v.cosine { 1.0 - d } else { d };
                        within[i][j].push(w);
                        if w > maxd {
                            maxd = w;
                        }
                    }
                }
            }
        }
        if near {
            amb(&mut self.stats);
            return false;
        }
        let mut claim = vec![vec![None::<f64>; k]; n];
        for i in 0..n {
            for j in 0..k {
                let votes = within[i][j].len();
                if votes > 0 && votes < v.min_votes {
                    self.stats.rv_votes_below_min += 1;
                }
                if votes >= v.min_votes && votes > 0 {
                    claim[i][j] = Some(within[i][j].iter().map(|d| maxd - d).sum());
                }
            }
        }
        let wm = |a: f64, b: f64| 1e-4 * (1.0 + a.abs().max(b.abs()));
        // ties between any two claims that matter to one another make the step ambiguous
        for j in 0..k {
            let cl: Vec<f64> = (0..n).filter_map(|i| claim[i][j]).collect();
            for a in 0..cl.len() {
                for b in (a + 1)..cl.len() {
                    if (cl[a] - cl[b]).abs() < wm(cl[a], cl[b]) {
                        amb(&mut self.stats);
                        return false;
                    }
                }
            }
        }
        for i in 0..n {
            let cl: Vec<f64> = (0..k).filter_map(|j| claim[i][j]).collect();
            for a in 0..cl.len() {
                for b in (a + 1)..cl.len() {
                    if (cl[a] - cl[b]).abs() < wm(cl[a], cl[b]) {
                        amb(&mut self.stats);
                        return false;
                    }
                }
            }
        }
        self.stats.rv_asserted += 1;
        let on: Vec<Option<usize>> = recs.iter().map(|r| cand.iter().position(|t| t.id == r.id)).collect();
        if m.pairs.iter().flatten().any(|p| *p == Pair::Forbidden) {
            self.stats.constraint_binding += 1;
        }
        for i in 0..n {
            if let Some(j) = on[i] {
                if m.pairs[i][j] == Pair::Forbidden {
                    self.v("C20", "attached-beyond-limit", op, "constraint-ignored",
                        format!("op {opi} scene {scene}: detection {i} attached to track {} at normalised distance {:.4} with epoch gap {} (limit {:?})",
                            cand[j].id, dist_in_2r(&boxes[i], &rts[j].pred), rts[j].gap, limit_for(&self.cfg.constraints, rts[j].gap)));
                    return true;
                }
            }
        }
        for j in 0..k {
            if (0..n).filter(|i| claim[*i][j].is_some()).count() > 1 {
                self.stats.rv_contests += 1;
            }
        }
        for i in 0..n {
            let r = &recs[i];
            let heavier = |j: usize, w: f64| (0..n).any(|i2| i2 != i && claim[i2][j].map(|w2| w2 > w).unwrap_or(false));
            if r.visual {
                self.stats.rv_visual_attach += 1;
                match on[i] {
                    None => {
                        self.v("C12", "visual-unsound", op, "visual-flag-without-existing-track",
                            format!("op {opi} scene {scene}: detection {i} reports visual voting but track {} is not a live candidate track", r.id));
                        return true;
                    }
                    Some(j) => match claim[i][j] {
                        None => {
                            let why = if !usable[i] {
                                "feature-not-usable"
                            } else if cand[j].gallery.as_ref().unwrap().len() < v.min_track_len {
                                "track-too-short"
                            } else {
                                "not-enough-votes"
                            };
                            self.v("C12", "visual-unsound", op, why,
                                format!("op {opi} scene {scene}: detection {i} attached to track {} by appearance without a valid claim ({why}; votes {} of {} needed, gallery {} of {} needed)",
                                    r.id, within[i][j].len(), v.min_votes, cand[j].gallery.as_ref().unwrap().len(), v.min_track_len));
                            return true;
                        }
                        Some(w) => {
                            if heavier(j, w) {
                                self.v("C12", "contest", op, "lighter-claimant-won",
                                    format!("op {opi} scene {scene}: detection {i} (weight {w:.5}) got track {} although a heavier claimant exists: {:?}",
                                        r.id, (0..n).map(|i2| claim[i2][j]).collect::<Vec<_>>()));
                                return true;
                            }
                        }
                    },
                }
            } else if let Some(j) = on[i] {
                if let Some(w) = claim[i][j] {
                    if heavier(j, w) {
                        self.v("C12", "contest", op, "loser-attached-to-contested-track",
                            format!("op {opi} scene {scene}: detection {i} lost the appearance contest for track {} but is attached to it", r.id));
                        return true;
                    }
                }
            }
            // completeness
            let mine: Vec<(usize, f64)> = (0..k).filter_map(|j| claim[i][j].map(|w| (j, w))).collect();
            if let Some((jb, wb)) = mine.iter().cloned().max_by(|a, b| a.1.partial_cmp(&b.1).unwrap()) {
                if !heavier(jb, wb) {
                    if on[i] != Some(jb) || !r.visual {
                        self.v("C12", "visual-incomplete", op, if on[i] == Some(jb) { "attached-but-not-reported-visual" } else { "winning-claim-ignored" },
                            format!("op {opi} scene {scene}: detection {i} holds the heaviest claim (weight {wb:.5}) on track {} and is its heaviest claimant, but the record is {:?}",
                                cand[jb].id, r));
                        return true;
                    }
                } else {
                    self.stats.rv_losers += 1;
                }
            }
        }
        // positional remainder: detections without any claim, tracks not taken by appearance
        let rows: Vec<usize> = (0..n).filter(|i| claim[*i].iter().all(|c| c.is_none())).collect();
        let taken: Vec<usize> = (0..n).filter(|i| recs[*i].visual).filter_map(|i| on[i]).collect();
        let cols: Vec<usize> = (0..k).filter(|j| !taken.contains(j)).collect();
        if rows.is_empty() {
            return true;
        }
        let sub = Matrix {
            pairs: rows.iter().map(|i| cols.iter().map(|j| m.pairs[*i][*j].clone()).collect()).collect(),
            near_threshold: false,
            unmatched_weight: m.unmatched_weight,
            weight_margin: m.weight_margin,
            close_above: 0,
            close_below: 0,
        };
        let vd = analyse(&sub, cols.len());
        if vd.ambiguous {
            return false;
        }
        self.stats.rv_fallback_rows += rows.len() as u64;
        for (ri, i) in rows.iter().enumerate() {
            let expect = vd.best[ri].map(|c| cols[c]);
            if recs[*i].visual {
                // reported visual without any claim: already handled above (unsound)
                continue;
            }
            if on[*i] != expect {
                self.v("C12", "fallback", op, "positional-remainder-not-optimal",
                    format!("op {opi} scene {scene}: detection {} has no appearance claim; positional optimum puts it on {:?}, the tracker on {:?} (tracks {:?}, taken by appearance {:?})",
                        i, expect.map(|j| cand[j].id), on[*i].map(|j| cand[j].id), cand.iter().map(|t| t.id).collect::<Vec<_>>(), taken.iter().map(|j| cand[*j].id).collect::<Vec<_>>()));
                return true;
            }
        }
        true
    }

    fn refsort_check(&mut self, op: &str, opi: usize, scene: u64, e: usize, dets: &[Det], recs: &[Rec]) {
        let cand: Vec<RTrack> = self
            .tracks
            .values()
            .filter(|t| t.scene == scene && t.in_tracker() && e - t.last_epoch <= self.cfg.max_idle)
            .map(|t| RTrack { id: t.id, gap: e - t.last_epoch, pred: t.last_pred.clone(), kf: t.kf.clone() })
            .collect();
        if self
            .tracks
            .values()
            .any(|t| t.scene == scene && t.place == Place::Live && t.place_known && e - t.last_epoch > self.cfg.max_idle)
        {
            self.stats.expiry_while_physically_live += 1;
        }
        let boxes: Vec<BoxF> = dets.iter().map(|d| d.b.clone()).collect();
        let kf_missing = matches!(self.cfg.metric, PosMetric::Maha) && cand.iter().any(|t| t.kf.is_none());
        // calls of any size: the exact optimum is computed per connected component of open pairs
        // (each capped at 7 detections x 9 tracks); only an over-sized component makes the step
        // ambiguous. Very large calls are still skipped to bound the cost of the matrix itself.
        if dets.len() > 120 || cand.len() > 400 || kf_missing {
            self.stats.ambiguous_steps += 1;
            if self.stats.first_ambiguous_op.is_none() {
                self.stats.first_ambiguous_op = Some(opi);
            }
            return;
        }
        let m = build_matrix(self.cfg, &boxes, &cand, true);
        let Some(v) = analyse_components(&m, cand.len(), 7, 9) else {
            self.stats.ambiguous_steps += 1;
            if self.stats.first_ambiguous_op.is_none() {
                self.stats.first_ambiguous_op = Some(opi);
            }
            return;
        };
        if v.ambiguous {
            self.stats.ambiguous_steps += 1;
            if self.stats.first_ambiguous_op.is_none() {
                self.stats.first_ambiguous_op = Some(opi);
            }
            return;
        }
        self.stats.asserted_steps += 1;
        self.stats.near_gate_open += m.close_above;
        self.stats.near_gate_closed += m.close_below;
        if m.pairs.iter().any(|r| r.iter().filter(|p| matches!(p, Pair::Open(_))).count() > 1) {
            self.stats.multi_choice_steps += 1;
        }
        if v.greedy_differs {
            self.stats.greedy_differs += 1;
        }
        // actual assignment
        let mut actual: Vec<Option<usize>> = vec![];
        for r in recs {
            actual.push(cand.iter().position(|t| t.id == r.id));
        }
        for (i, a) in actual.iter().enumerate() {
            match a {
                Some(j) => match &m.pairs[i][*j] {
                    Pair::Forbidden => {
                        self.stats.constraint_binding += 1;
                        self.v("C20", "attached-beyond-limit", op, "constraint-ignored",
                            format!("op {opi} scene {scene}: detection {i} attached to track {} at normalised distance {:.4} with epoch gap {} (limit {:?})",
                                cand[*j].id, dist_in_2r(&boxes[i], &cand[*j].pred), cand[*j].gap, limit_for(&self.cfg.constraints, cand[*j].gap)));
                        return;
                    }
                    Pair::Closed => {
                        self.v("C02", "gate", op, "continued-through-closed-gate",
                            format!("op {opi} scene {scene}: detection {i} {:?} continues track {} (last estimate {:?}) although the pair does not pass the gate",
                                boxes[i], cand[*j].id, cand[*j].pred));
                        return;
                    }
                    Pair::Open(_) => {}
                },
                None => {
                    if m.pairs[i].iter().any(|p| matches!(p, Pair::Open(_))) {
                        self.stats.gated_but_unassigned += 1;
                    }
                }
            }
        }
        if m.pairs.iter().flatten().any(|p| *p == Pair::Forbidden) {
            self.stats.constraint_binding += 1;
        }
        if actual != v.best {
            let at = total_of(&m, &actual);
            // was a table-admitted pair refused, or is it a plain assignment error?
            let m_free = build_matrix(self.cfg, &boxes, &cand, false);
            let v_free = analyse_components(&m_free, cand.len(), 7, 9);
            let table_matters = self.cfg.constraints.is_some() && v_free.as_ref().map(|f| f.best != v.best).unwrap_or(false);
            let v_free_best = v_free.map(|f| f.best).unwrap_or_default();
            // ... or was an admitted pair refused in a way that a row configured for ANOTHER gap
            // explains (the pair the reference continues is within its own limit but beyond the
            // limit of some other row)? Then the table lookup picked the wrong row: C20.
            let wrong_row = self
                .cfg
                .constraints
                .as_ref()
                .map(|t| {
                    v.best.iter().enumerate().any(|(i, b)| match b {
                        Some(j) if actual.get(i).copied().flatten() != Some(*j) => {
                            let d = dist_in_2r(&boxes[i], &cand[*j].pred) as f64;
                            t.iter().any(|(_, lim)| d > *lim as f64)
                        }
                        _ => false,
                    })
                })
                .unwrap_or(false);
            let (p, clause, detail) = if table_matters && actual == v_free_best {
                ("C20", "table-ignored", "assignment-as-if-unconstrained")
            } else if wrong_row {
                ("C20", "pair-refused-within-limit", "another-rows-limit-would-explain-it")
            } else {
                ("C02", "optimal", "not-the-maximum-weight-assignment")
            };
            self.v(p, clause, op, detail,
                format!("op {opi} scene {scene}: actual assignment {:?} (total {:?}) differs from the unique optimum {:?} (total {:.6}); tracks {:?}; weights {:?}",
                    actual, at, v.best, v.best_total, cand.iter().map(|t| t.id).collect::<Vec<_>>(), m.pairs));
        }
    }

    fn check_phys(&mut self, op: &str, opi: usize, p: &Phys, recs: Option<&Vec<(u64, Vec<Rec>)>>) {
        // C13: histories and galleries of every stored track
        let ids: Vec<u64> = p.live.keys().chain(p.wasted.keys()).cloned().collect();
        for id in ids {
            let ti = p.live.get(&id).or_else(|| p.wasted.get(&id)).unwrap().clone();
            if self.tracks.contains_key(&id) {
                self.check_histories(op, opi, &ti, "stored");
                self.check_gallery(op, opi, &ti);
            }
        }
        // every track in exactly one place; WHERE an expired track physically sits
        // (live or wasted store) is the tracker's business, except that an
        // unexpired track must be live and that tracks vanish only by clear_wasted
        for id in p.live.keys().chain(p.wasted.keys()) {
            match self.tracks.get(id) {
                None => {
                    self.v("C03", "place", op, "unknown-track-stored", format!("op {opi}: store holds track {id} that no result ever mentioned"));
                    return;
                }
                Some(t) if !t.in_tracker() => {
                    self.v("C03", "place", op, "dead-track-stored", format!("op {opi}: track {id} is stored again although it was already {:?}", t.place));
                    return;
                }
                _ => {}
            }
        }
        let ids: Vec<u64> = self.tracks.values().filter(|t| t.in_tracker()).map(|t| t.id).collect();
        for id in ids {
            let in_live = p.live.contains_key(&id);
            let in_wasted = p.wasted.contains_key(&id);
            let mt = self.tracks[&id].clone();
            let expired = self.expired(&mt);
            if in_live && in_wasted {
                self.v("C03", "place", op, "track-in-two-places", format!("op {opi}: track {id} is in the live and in the wasted store"));
                return;
            }
            if !in_live && !in_wasted {
                if op == "clear_wasted" && expired {
                    self.tracks.get_mut(&id).unwrap().place = Place::Cleared;
                    continue;
                }
                self.v("C03", "place", op, "track-lost", format!("op {opi}: track {id} (length {}, last epoch {}) is in neither store and was never handed out", mt.length, mt.last_epoch));
                return;
            }
            if in_wasted && !expired {
                self.v("C03", "place", op, "unexpired-track-collected",
                    format!("op {opi}: track {id} (last epoch {}, scene epoch {}, max idle {}) sits in the wasted store although it has not expired", mt.last_epoch, self.epoch(mt.scene), self.cfg.max_idle));
                return;
            }
            let t = self.tracks.get_mut(&id).unwrap();
            t.place = if in_live { Place::Live } else { Place::Collected };
            t.place_known = true;
        }
        for (id, ti) in p.live.iter().chain(p.wasted.iter()) {
            let mt = self.tracks[id].clone();
            if ti.length != mt.length {
                self.v("C03", "conservation", op, "stored-length",
                    format!("op {opi}: track {id} stores length {}, {} detections were attached", ti.length, mt.length));
            }
            if ti.last_epoch != mt.last_epoch || ti.scene != mt.scene {
                self.v("C03", "conservation", op, "stored-epoch-or-scene",
                    format!("op {opi}: track {id} stores epoch {} scene {}, model epoch {} scene {}", ti.last_epoch, ti.scene, mt.last_epoch, mt.scene));
            }
        }
        // records must agree with what is stored
        if let Some(scenes) = recs {
            for (_, rs) in scenes {
                for r in rs {
                    if let Some(ti) = p.live.get(&r.id) {
                        let ok = ti.length == r.length
                            && ti.last_epoch == r.epoch
                            && ti.scene == r.scene
                            && ti.custom == r.custom
                            && ti.obs_hist.last().map(|b| box_eq(b, &r.obs)).unwrap_or(false)
                            && ti.pred_hist.last().map(|b| box_eq(b, &r.pred)).unwrap_or(false);
                        if !ok {
                            self.v("C01", "stored-mismatch", op, "record-vs-store",
                                format!("op {opi}: record {:?} disagrees with stored track {:?}", r, ti));
                        }
                    } else {
                        self.v("C01", "stored-mismatch", op, "record-track-not-stored",
                            format!("op {opi}: record names track {} which is not in the live store", r.id));
                    }
                }
            }
        }
    }
}

pub fn walk(case: &TrackerCase, hist: &History) -> Walk {
    let cfg = &case.cfg;
    let mut m = Model {
        cfg,
        epochs: BTreeMap::new(),
        tracks: BTreeMap::new(),
        issued: BTreeSet::new(),
        total_dets: 0,
        violations: vec![],
        stats: WalkStats::default(),
    };
    let is_batch = cfg.kind.is_batch();
    for (opi, (op, step)) in case.ops.iter().zip(hist.iter()).enumerate() {
        let kind = op.kind();
        for _ in 0..step.quiesce_batches {
            m.tick();
        }
        let mut recs_for_phys: Option<&Vec<(u64, Vec<Rec>)>> = None;
        match (op, &step.res) {
            (TOp::Predict { scene, dets }, Res::Scenes(rs)) => {
                if is_batch && dets.is_empty() {
                    // executed as an empty batch: a GC tick, no epoch change
                    m.tick();
                } else {
                    m.tick();
                    if rs.len() != 1 || rs[0].0 != *scene {
                        m.v(if is_batch { "C06" } else { "C01" }, "result-per-scene", kind, "wrong-scenes",
                            format!("op {opi}: one scene ({scene}) submitted, results for scenes {:?}", rs.iter().map(|x| x.0).collect::<Vec<_>>()));
                    } else {
                        m.scene_call(kind, opi, *scene, dets, &rs[0].1);
                    }
                    recs_for_phys = Some(rs);
                }
            }
            (TOp::Batch { scenes, .. }, Res::Scenes(rs)) => {
                if is_batch {
                    m.tick();
                }
                let want: BTreeSet<u64> = scenes.iter().map(|s| s.0).collect();
                let got: Vec<u64> = rs.iter().map(|s| s.0).collect();
                let got_set: BTreeSet<u64> = got.iter().cloned().collect();
                if got.len() != want.len() || got_set != want {
                    m.v(if is_batch { "C06" } else { "C01" }, "result-per-scene", kind, "scene-set",
                        format!("op {opi}: batch with scenes {:?} delivered results for {:?}", want, got));
                } else {
                    for (s, recs) in rs {
                        if !is_batch {
                            m.tick();
                        }
                        let dets = &scenes.iter().find(|x| x.0 == *s).unwrap().1;
                        m.scene_call(kind, opi, *s, dets, recs);
                    }
                    recs_for_phys = Some(rs);
                }
            }
            (TOp::Batch { .. }, Res::Partial(_)) | (TOp::Batch { .. }, Res::Unit) => {
                // results never (fully) retrieved: the model cannot follow any further
                break;
            }
            (TOp::Skip { scene, n }, _) => {
                let e = m.epoch(*scene) + n;
                m.epochs.insert(*scene, e);
                m.stats.epochs += *n as u64;
                m.collect();
            }
            (TOp::Wasted, Res::Wasted(w)) => {
                m.collect();
                let expect: BTreeSet<u64> = m.tracks.values().filter(|t| t.in_tracker() && m.expired(t)).map(|t| t.id).collect();
                let mut got = BTreeSet::new();
                for ti in w {
                    if !got.insert(ti.id) {
                        m.v("C03", "wasted-once", kind, "duplicate-in-result", format!("op {opi}: wasted() lists track {} twice", ti.id));
                    }
                    match m.tracks.get(&ti.id).cloned() {
                        None => m.v("C03", "wasted-set", kind, "unknown-track", format!("op {opi}: wasted() returned unknown track {}", ti.id)),
                        Some(mt) => {
                            if mt.place == Place::HandedOut || mt.place == Place::Cleared {
                                m.v("C03", "wasted-once", kind, "handed-out-again",
                                    format!("op {opi}: wasted() returned track {} which was already {:?}", ti.id, mt.place));
                            } else if !m.expired(&mt) {
                                m.v("C03", "wasted-set", kind, "unexpired-track",
                                    format!("op {opi}: wasted() returned track {} which is not expired (last epoch {}, scene epoch {}, max idle {})",
                                        ti.id, mt.last_epoch, m.epoch(mt.scene), cfg.max_idle));
                            }
                            m.check_histories(kind, opi, ti, "wasted");
                            if ti.length != mt.length || ti.last_epoch != mt.last_epoch || ti.scene != mt.scene {
                                m.v("C03", "conservation", kind, "wasted-track-fields",
                                    format!("op {opi}: wasted track {} has length {} epoch {} scene {}; model {} {} {}",
                                        ti.id, ti.length, ti.last_epoch, ti.scene, mt.length, mt.last_epoch, mt.scene));
                            }
                            if !ti.obs_hist.last().map(|b| box_eq(b, &mt.last_obs)).unwrap_or(false)
                                || !ti.pred_hist.last().map(|b| box_eq(b, &mt.last_pred)).unwrap_or(false)
                            {
                                m.v("C03", "conservation", kind, "wasted-track-last-boxes",
                                    format!("op {opi}: wasted track {} last boxes differ from the last record", ti.id));
                            }
                        }
                    }
                }
                for id in expect.difference(&got) {
                    m.v("C03", "wasted-set", kind, "expired-track-not-returned",
                        format!("op {opi}: wasted() did not return expired track {id}"));
                }
                if got.len() > 1 {
                    m.stats.wasted_multi += 1;
                }
                for id in got {
                    if let Some(t) = m.tracks.get_mut(&id) {
                        t.place = Place::HandedOut;
                    }
                }
            }
            (TOp::Idle { scene }, Res::Idle(rs)) => {
                let e = m.epoch(*scene);
                let expect: BTreeSet<u64> = m
                    .tracks
                    .values()
                    .filter(|t| t.scene == *scene && t.in_tracker() && !m.expired(t) && t.last_epoch != e)
                    .map(|t| t.id)
                    .collect();
                let got: BTreeSet<u64> = rs.iter().map(|r| r.id).collect();
                if got.len() != rs.len() {
                    m.v("C03", "idle-set", kind, "duplicate", format!("op {opi}: idle list names a track twice"));
                }
                if got != expect {
                    let extra: Vec<u64> = got.difference(&expect).cloned().collect();
                    let missing: Vec<u64> = expect.difference(&got).cloned().collect();
                    let detail = if let Some(x) = extra.first() {
                        match m.tracks.get(x) {
                            Some(t) if t.scene != *scene => "other-scene-track",
                            Some(t) if m.expired(t) => "expired-track-listed",
                            Some(t) if t.last_epoch == e => "updated-track-listed",
                            Some(_) => "extra",
                            None => "unknown-track",
                        }
                    } else {
                        "idle-track-missing"
                    };
                    m.v("C03", "idle-set", kind, detail,
                        format!("op {opi}: idle_tracks(scene {scene}) = {:?}, expected {:?} (extra {:?}, missing {:?}; scene epoch {e}, max idle {})",
                            got, expect, extra, missing, cfg.max_idle));
                } else {
                    for r in rs {
                        let mt = &m.tracks[&r.id];
                        if r.length != mt.length || r.epoch != mt.last_epoch || r.scene != mt.scene || !box_eq(&r.obs, &mt.last_obs) {
                            let msg = format!("op {opi}: idle record {:?} disagrees with the model ({} {} {})", r, mt.length, mt.last_epoch, mt.scene);
                            m.v("C03", "idle-set", kind, "record-fields", msg);
                        }
                    }
                }
                if !got.is_empty() {
                    m.stats.idle_nonempty += 1;
                }
                for id in got {
                    m.issued.insert(id);
                }
            }
            (TOp::ClearWasted, _) => {
                // which tracks disappear is read off the snapshot taken after this
                // op (check_phys); without a snapshot nothing can be said any more
                if step.phys.is_none() {
                    break;
                }
            }
            (TOp::SetAutoWaste(_), _) => {}
            (TOp::Epoch { scene }, Res::Epoch(e)) => {
                if *e != m.epoch(*scene) {
                    m.v("C03", "epoch", kind, "current-epoch", format!("op {opi}: current_epoch({scene}) = {e}, model {}", m.epoch(*scene)));
                }
            }
            (TOp::Stats, Res::Stats { active, wasted }) => {
                // the statistics must report what the stores hold right now, shard by shard
                if let Some(p) = &step.phys {
                    let mut ea = vec![0usize; cfg.shards];
                    let mut ew = vec![0usize; cfg.shards];
                    // per shard as physically found (how ids map to shards is the store's business)
                    for s in p.live_shard_of.values() {
                        ea[*s] += 1;
                    }
                    for s in p.wasted_shard_of.values() {
                        ew[*s] += 1;
                    }
                    if *active != ea {
                        m.v("C03", "stats", kind, "active", format!("op {opi}: active_shard_stats {:?}, live store holds {:?}", active, ea));
                    }
                    if *wasted != ew {
                        m.v("C03", "stats", kind, "wasted", format!("op {opi}: wasted_shard_stats {:?}, wasted store holds {:?}", wasted, ew));
                    }
                }
                let total: usize = active.iter().sum::<usize>() + wasted.iter().sum::<usize>();
                let alive = m.tracks.values().filter(|t| t.in_tracker()).count();
                if total != alive && step.phys.is_some() {
                    m.v("C03", "stats", kind, "total", format!("op {opi}: statistics account for {total} tracks, {alive} are neither handed out nor cleared"));
                }
            }
            (o, r) => {
                m.v("C01", "harness", kind, "op-result-shape", format!("op {opi}: {:?} produced {:?}", o.kind(), r));
            }
        }
        if let Some(p) = &step.phys {
            m.check_phys(kind, opi, p, recs_for_phys);
        } else {
            for t in m.tracks.values_mut() {
                if !t.pending.is_empty() {
                    t.gallery = None;
                }
            }
        }
    }
    Walk { violations: m.violations, stats: m.stats }
}
