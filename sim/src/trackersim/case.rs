//! Tracker-level case: configuration, detection history, lifecycle operations;
//! and the swarm generator (worlds of objects doing random walks).

use super::geom::BoxF;
use crate::sched::Rng;
use serde::{Deserialize, Serialize};

#[derive(Clone, Copy, Debug, PartialEq, Serialize, Deserialize)]
pub enum Kind {
    Sort,
    BatchSort,
    VisualSort,
    BatchVisualSort,
}

impl Kind {
    pub fn is_batch(&self) -> bool {
        matches!(self, Kind::BatchSort | Kind::BatchVisualSort)
    }
    pub fn is_visual(&self) -> bool {
        matches!(self, Kind::VisualSort | Kind::BatchVisualSort)
    }
    pub fn simple_twin(&self) -> Kind {
        match self {
            Kind::BatchSort => Kind::Sort,
            Kind::BatchVisualSort => Kind::VisualSort,
            k => *k,
        }
    }
}

#[derive(Clone, Copy, Debug, PartialEq, Serialize, Deserialize)]
pub enum PosMetric {
    IoU(f32),
    Maha,
}

#[derive(Clone, Debug, PartialEq, Serialize, Deserialize)]
pub struct VisualCfg {
    /// true = cosine, false = euclidean
    pub cosine: bool,
    pub threshold: f32,
    pub min_votes: usize,
    pub min_track_len: usize,
    pub max_obs: usize,
    pub q_use: f32,
    pub q_collect: f32,
    pub min_area: f32,
    pub own_use: f32,
    pub own_collect: f32,
}

#[derive(Clone, Debug, PartialEq, Serialize, Deserialize)]
pub struct TrkCfg {
    pub kind: Kind,
    pub shards: usize,
    pub voting_shards: usize,
    pub history: usize,
    pub max_idle: usize,
    pub metric: PosMetric,
    pub min_conf: f32,
    pub constraints: Option<Vec<(usize, f32)>>,
    pub pos_w: f32,
    pub vel_w: f32,
    /// the constraint table is assembled by this many add_constraints calls
    #[serde(default)]
    pub constraint_calls: usize,
    pub visual: Option<VisualCfg>,
}

#[derive(Clone, Debug, PartialEq, Serialize, Deserialize)]
pub struct Det {
    pub b: BoxF,
    pub custom: Option<i64>,
    pub feature: Option<Vec<f32>>,
    pub quality: Option<f32>,
    /// generator's ground truth (object serial), not visible to the tracker
    #[serde(default)]
    pub truth: u32,
}

#[derive(Clone, Copy, Debug, PartialEq, Serialize, Deserialize)]
pub enum Consumer {
    /// the submitting thread reads all results
    Same,
    /// another thread reads them; it is joined before the next operation
    Other,
    /// another thread reads them while the next operations proceed
    OtherLate,
    /// read only `n` results, then drop the handle (only as the last operation)
    DropAfter(usize),
}

#[derive(Clone, Debug, PartialEq, Serialize, Deserialize)]
pub enum TOp {
    /// simple trackers: predict_with_scene; batch trackers: a one-scene batch
    Predict { scene: u64, dets: Vec<Det> },
    /// several scenes at once (simple trackers process them one after another)
    Batch { scenes: Vec<(u64, Vec<Det>)>, consumer: Consumer },
    Skip { scene: u64, n: usize },
    Wasted,
    Idle { scene: u64 },
    ClearWasted,
    SetAutoWaste(usize),
    Epoch { scene: u64 },
    Stats,
}

impl TOp {
    pub fn kind(&self) -> &'static str {
        match self {
            TOp::Predict { .. } => "predict",
            TOp::Batch { .. } => "predict_batch",
            TOp::Skip { .. } => "skip_epochs",
            TOp::Wasted => "wasted",
            TOp::Idle { .. } => "idle_tracks",
            TOp::ClearWasted => "clear_wasted",
            TOp::SetAutoWaste(_) => "set_auto_waste",
            TOp::Epoch { .. } => "current_epoch",
            TOp::Stats => "shard_stats",
        }
    }
}

#[derive(Clone, Debug, PartialEq, Serialize, Deserialize)]
pub struct TrackerCase {
    pub cfg: TrkCfg,
    pub ops: Vec<TOp>,
}

// ---------------------------------------------------------------------------
// generator

pub struct WorldOpts {
    pub kinds: Vec<Kind>,
    pub max_frames: usize,
    pub max_scenes: usize,
    pub max_objects: usize,
    /// exact duplicates of a detection inside one call (tie-agnostic checks only)
    pub twins: bool,
    /// lifecycle operations interleaved with predicts
    pub lifecycle: bool,
    /// allow batches spanning several scenes / consumer variants
    pub batches: bool,
    pub rotation: bool,
    pub constraints: u8, // 0 never, 1 sometimes, 2 mostly
    pub features: bool,
    /// assignment stress: crossing / crowded objects
    pub stress: bool,
    /// long single-object lifetimes (bounded histories / galleries)
    pub long_life: usize,
    /// look-alike objects (shared appearance prototype) for appearance contests
    pub lookalikes: bool,
    /// batches spanning many scenes (queue-depth / back-pressure behaviour)
    pub wide: bool,
    /// exclusively-owned-area thresholds may be configured (VisualSORT)
    pub own_area: bool,
    /// fast, accelerating objects (estimate lags the observation; constraint rows bind)
    pub fast: bool,
    /// more batches whose results are read late by another thread (pipelined use)
    pub late_bias: bool,
}

struct Obj {
    serial: u32,
    scene: u64,
    x: f32,
    y: f32,
    vx: f32,
    vy: f32,
    aspect: f32,
    height: f32,
    angle: Option<f32>,
    dangle: f32,
    grow: f32,
    /// frames during which the object is not detected (occlusion)
    hidden: u32,
    proto: Vec<f32>,
    custom: Option<i64>,
    alive: bool,
    /// quality pattern: 0 random, 1 increasing, 2 decreasing, 3 constant
    qmode: u8,
    qcur: f32,
    immortal: bool,
    accel: f32,
    size_noise: f32,
}

pub const FEAT_DIM: usize = 6;

fn gen_cfg(r: &mut Rng, o: &WorldOpts) -> TrkCfg {
    let kind = *r.pick(&o.kinds);
    let metric = if r.chance(3, 5) {
        PosMetric::IoU(*r.pick(&[0.1f32, 0.3, 0.3, 0.5, 0.7]))
    } else {
        PosMetric::Maha
    };
    // level 1: a third of the cases carry a table, level 2 (C20's own world): five in six
    let constraints = if o.constraints > 0 && r.chance(if o.constraints >= 2 { 5 } else { 2 }, 6) {
        let n = r.range(1, 4);
        Some(
            (0..n)
                .map(|_| (r.range(1, 5) as usize, *r.pick(&[0.1f32, 0.15, 0.2, 0.3, 0.4, 0.6, 1.0, 1.5, 3.0])))
                .collect(),
        )
    } else {
        None
    };
    let visual = if kind.is_visual() {
        let max_obs = r.range(1, 6) as usize;
        Some(VisualCfg {
            cosine: r.chance(1, 3),
            threshold: 0.0, // filled below
            min_votes: r.range(1, 3) as usize,
            min_track_len: r.range(1, max_obs.min(4) as i64) as usize,
            max_obs,
            q_use: *r.pick(&[0.0f32, 0.3, 0.5]),
            q_collect: *r.pick(&[0.0f32, 0.4, 0.6]),
            min_area: *r.pick(&[0.0f32, 0.0, 150.0, 1000.0, 2500.0]),
            own_use: if o.own_area && r.chance(1, 3) { *r.pick(&[0.05f32, 0.3, 0.6, 0.9]) } else { 0.0 },
            own_collect: if o.own_area && r.chance(1, 3) { *r.pick(&[0.04f32, 0.4, 0.7, 0.95]) } else { 0.0 },
        })
    } else {
        None
    };
    let visual = visual.map(|mut v| {
        v.threshold = if v.cosine { *r.pick(&[0.3f32, 0.4, 0.6, 0.9, 0.95]) } else { *r.pick(&[0.5f32, 1.0, 2.0]) };
        v
    });
    TrkCfg {
        kind,
        shards: r.range(1, 8) as usize,
        voting_shards: r.range(1, 4) as usize,
        history: r.range(1, 10) as usize,
        max_idle: r.range(0, 5) as usize,
        metric,
        min_conf: *r.pick(&[0.05f32, 0.05, 0.3]),
        constraints,
        pos_w: *r.pick(&[0.05f32, 0.05, 0.05, 0.2, 0.5]),
        vel_w: *r.pick(&[0.00625f32, 0.00625, 0.00625, 0.05]),
        constraint_calls: r.range(1, 3) as usize,
        visual,
    }
}

fn new_obj(r: &mut Rng, serial: u32, scene: u64, o: &WorldOpts, near: Option<(f32, f32)>, feat_extra: usize) -> Obj {
    let speed = if o.fast && r.chance(1, 2) { 4.0 } else { 1.0 };
    let (x, y) = match near {
        Some((nx, ny)) => (nx + r.f32() * 30.0 - 15.0, ny + r.f32() * 30.0 - 15.0),
        None => (50.0 + r.f32() * 400.0, 50.0 + r.f32() * 300.0),
    };
    let mut proto = vec![0.0f32; FEAT_DIM];
    // prototypes well separated: one-hot-ish with magnitude 3
    proto[(serial as usize) % FEAT_DIM] = 3.0;
    proto[(serial as usize / FEAT_DIM) % FEAT_DIM] += 1.5;
    // extra dimensions (feature length is a swarm knob: the packed representation has
    // 8 lanes, so lengths below / at / above one and two lanes are all visited); the values
    // are a fixed function of the object so that no generator randomness is consumed
    for k in 0..feat_extra {
        proto.push(0.25 * (((serial as usize * 31 + k * 17) % 7) as f32 - 3.0) / 3.0);
    }
    Obj {
        serial,
        scene,
        x,
        y,
        vx: (r.f32() * 6.0 - 3.0) * speed,
        vy: (r.f32() * 6.0 - 3.0) * speed,
        accel: speed,
        aspect: 0.4 + r.f32() * 1.2,
        height: 20.0 + r.f32() * 60.0,
        angle: if o.rotation && r.chance(1, 3) { Some(r.f32() * 3.0 - 1.5) } else { None },
        dangle: if r.chance(1, 2) { 0.0 } else { r.f32() * 0.1 - 0.05 },
        grow: 1.0 + (r.f32() - 0.5) * if r.chance(1, 3) { 0.12 } else { 0.04 },
        size_noise: if r.chance(1, 4) { 0.12 } else { 0.0 },
        hidden: 0,
        proto,
        custom: if r.chance(1, 2) { Some(r.below(1000) as i64 - 500) } else { None },
        alive: true,
        qmode: r.below(4) as u8,
        qcur: *r.pick(&[0.05f32, 0.35, 0.5, 0.95]),
        immortal: false,
    }
}

pub fn gen_tracker_case(seed: u64, o: &WorldOpts) -> TrackerCase {
    let mut r = Rng::new(seed);
    // feature length 7 + extra (own random stream: older seeds keep their cases otherwise)
    let feat_extra: usize = *Rng::new(seed ^ 0xFEA7_D1A5_0000_0001).pick(&[0usize, 0, 0, 0, 1, 2, 3, 9, 10, 17]);
    let mut cfg = gen_cfg(&mut r, o);
    // half of the constraint tables get a trailing row for a large gap with a small limit (own
    // random stream): tables that are not monotone in the gap, and rows beyond max_idle_epochs
    if let Some(t) = cfg.constraints.as_mut() {
        let mut r3 = Rng::new(seed ^ 0x7AB1_E000_0000_0007);
        if r3.chance(1, 2) {
            t.push((*r3.pick(&[5usize, 6, 7, 8, 64, 100]), *r3.pick(&[0.1f32, 0.15, 0.2])));
        }
    }
    // one visual configuration in twelve keeps a big gallery (24 features)
    if let Some(v) = cfg.visual.as_mut() {
        if Rng::new(seed ^ 0x6A11_E2B1_0000_000B).chance(1, 12) {
            v.max_obs = 24;
        }
    }
    let cfg = cfg;
    let wide = o.wide && r.chance(1, 3);
    let n_scenes = if wide { r.range(5, 18) as u64 } else { r.range(1, o.max_scenes as i64) as u64 };
    let scene_ids: Vec<u64> = {
        let mut v: Vec<u64> = vec![];
        while (v.len() as u64) < n_scenes {
            let s = if wide { r.below(40) } else { *r.pick(&[0u64, 1, 2, 3, 7, 10, 1_000_003]) };
            if !v.contains(&s) {
                v.push(s);
            }
        }
        v
    };
    // boundary scene ids in a quarter of the histories (own random stream): the second scene is
    // congruent to the first modulo 2^32, the third is u64::MAX, further ones sit just below it
    let mut scene_ids = scene_ids;
    if !wide && Rng::new(seed ^ 0x5CE9_E1D5_0000_0009).chance(1, 4) {
        let first = scene_ids[0];
        for (k, s) in scene_ids.iter_mut().enumerate() {
            *s = match k {
                0 => first,
                1 => (1u64 << 32) | (first & 0xFFFF_FFFF),
                2 => u64::MAX,
                _ => u64::MAX - k as u64,
            };
        }
    }
    let scene_ids = scene_ids;
    let long = o.long_life > 0 && r.chance(1, 2);
    let frames = if wide {
        r.range(1, 4) as usize
    } else if long {
        r.range((o.long_life / 3).max(1) as i64, o.long_life as i64) as usize
    } else if r.chance(1, 4) {
        r.range(1, 3) as usize
    } else {
        r.range(1, o.max_frames as i64) as usize
    };
    let mut serial = 0u32;
    let mut objs: Vec<Obj> = vec![];
    for s in &scene_ids {
        let n = if wide { r.range(1, 2) as u64 } else { r.below(o.max_objects as u64 + 1) };
        for _ in 0..n {
            let near = if o.stress && !objs.is_empty() && r.chance(1, 2) {
                let p = &objs[r.below(objs.len() as u64) as usize];
                Some((p.x, p.y))
            } else {
                None
            };
            let mut ob = new_obj(&mut r, serial, *s, o, near, feat_extra);
            if long {
                ob.immortal = true;
            }
            if o.lookalikes && !objs.is_empty() && r.chance(1, 2) {
                let src = objs[r.below(objs.len() as u64) as usize].proto.clone();
                ob.proto = src;
            }
            objs.push(ob);
            serial += 1;
        }
    }
    if long && objs.is_empty() {
        let mut ob = new_obj(&mut r, serial, scene_ids[0], o, None, feat_extra);
        ob.immortal = true;
        objs.push(ob);
        serial += 1;
    }
    let mut ops: Vec<TOp> = vec![];
    if o.lifecycle && r.chance(1, 2) {
        ops.push(TOp::SetAutoWaste(*r.pick(&[0usize, 1, 2, 3, 7, 100])));
    }
    let frame_dets = |r: &mut Rng, objs: &mut Vec<Obj>, scene: u64, cfg: &TrkCfg, serial: &mut u32| -> Vec<Det> {
        let mut dets = vec![];
        for ob in objs.iter_mut().filter(|x| x.scene == scene && x.alive) {
            // motion
            ob.x += ob.vx;
            ob.y += ob.vy;
            ob.vx = (ob.vx + (r.f32() * 1.0 - 0.5) * ob.accel * ob.accel).clamp(-8.0 * ob.accel, 8.0 * ob.accel);
            ob.vy = (ob.vy + (r.f32() * 1.0 - 0.5) * ob.accel * ob.accel).clamp(-8.0 * ob.accel, 8.0 * ob.accel);
            ob.height = (ob.height * ob.grow).clamp(8.0, 200.0);
            if let Some(a) = ob.angle.as_mut() {
                if ob.serial % 3 != 0 {
                    *a += ob.dangle;
                }
            }
            if ob.hidden > 0 {
                ob.hidden -= 1;
                continue;
            }
            if !ob.immortal && r.chance(1, 12) {
                // disappears for a while: shorter or longer than max_idle
                ob.hidden = r.range(1, (cfg.max_idle + 3) as i64) as u32;
                continue;
            }
            if !ob.immortal && r.chance(1, 40) {
                ob.alive = false;
                continue;
            }
            let jitter = |r: &mut Rng, s: f32| (r.f32() - 0.5) * s;
            let b = BoxF {
                xc: ob.x + jitter(r, 2.0),
                yc: ob.y + jitter(r, 2.0),
                // every third object keeps its orientation exactly (no jitter, no drift): equally
                // oriented rotated boxes frame after frame; the jitter draw is still consumed
                angle: ob.angle.map(|a| {
                    let j = jitter(r, 0.02);
                    if ob.serial % 3 == 0 {
                        a
                    } else {
                        a + j
                    }
                }),
                aspect: (ob.aspect + jitter(r, 0.02)).max(0.1),
                height: ((ob.height + jitter(r, 1.0)) * (1.0 + jitter(r, 2.0 * ob.size_noise))).max(4.0),
                conf: *r.pick(&[1.0f32, 1.0, 0.9, 0.6, 0.2, 0.01]),
            };
            let (feature, quality) = if cfg.kind.is_visual() && o.features {
                if r.chance(1, 8) {
                    (None, None)
                } else {
                    let mut f: Vec<f32> = ob.proto.iter().take(FEAT_DIM).map(|p| p + jitter(r, 0.2)).collect();
                    // unique tag coordinate so every stored feature is attributable
                    *serial += 1;
                    f.push(0.001 * (*serial % 1000) as f32);
                    for (k, p) in ob.proto.iter().enumerate().skip(FEAT_DIM) {
                        f.push(p + 0.004 * ((*serial as usize * (k + 3)) % 13) as f32);
                    }
                    (
                        Some(f),
                        if r.chance(1, 8) {
                            None
                        } else {
                            Some(match ob.qmode {
                                1 => {
                                    ob.qcur = (ob.qcur + 0.013).min(0.99);
                                    ob.qcur
                                }
                                2 => {
                                    ob.qcur = (ob.qcur - 0.013).max(0.01);
                                    ob.qcur
                                }
                                3 => ob.qcur,
                                _ => *r.pick(&[0.1f32, 0.35, 0.45, 0.55, 0.7, 0.9, 0.9]),
                            })
                        },
                    )
                }
            } else {
                (None, None)
            };
            dets.push(Det { b, custom: ob.custom, feature, quality, truth: ob.serial });
        }
        // assignment stress: a detection between two neighbouring objects plus one
        // on the far side of the first, so that first-come / greedy and optimal differ
        if o.stress && r.chance(1, 3) {
            let vis: Vec<(f32, f32, f32, f32, Option<f32>, u32)> = objs
                .iter()
                .filter(|x| x.scene == scene && x.alive && x.hidden == 0)
                .map(|x| (x.x, x.y, x.aspect, x.height, x.angle, x.serial))
                .collect();
            'find: for i in 0..vis.len() {
                for j in 0..vis.len() {
                    if i == j {
                        continue;
                    }
                    let (a, b) = (vis[i], vis[j]);
                    let w = a.2 * a.3;
                    let dist = ((a.0 - b.0).powi(2) + (a.1 - b.1).powi(2)).sqrt();
                    if dist < 0.9 * w.max(a.3) && dist > 1.0 {
                        let t = 0.35 + r.f32() * 0.3;
                        let mid = (a.0 + t * (b.0 - a.0), a.1 + t * (b.1 - a.1));
                        let away = (a.0 - 0.25 * (b.0 - a.0), a.1 - 0.25 * (b.1 - a.1));
                        dets.retain(|d| d.truth != a.5 && d.truth != b.5);
                        let mk = |p: (f32, f32), truth: u32| Det {
                            b: BoxF { xc: p.0, yc: p.1, angle: a.4, aspect: a.2, height: a.3, conf: 1.0 },
                            custom: None,
                            feature: None,
                            quality: None,
                            truth,
                        };
                        dets.push(mk(mid, b.5));
                        dets.push(mk(away, a.5));
                        break 'find;
                    }
                }
            }
        }
        // two detections competing for one object (the second is a displaced copy):
        // only one can continue the track, and it must be the better one
        if o.stress && !dets.is_empty() && r.chance(1, 4) {
            let mut d = dets[r.below(dets.len() as u64) as usize].clone();
            let w = d.b.aspect * d.b.height;
            let sh = (0.1 + r.f32() * 0.3) * w.min(d.b.height);
            let ang = r.f32() * 6.283;
            d.b.xc += sh * ang.cos();
            d.b.yc += sh * ang.sin();
            d.truth = u32::MAX - 1;
            d.feature = None;
            d.quality = None;
            dets.push(d);
        }
        // false positive
        if r.chance(1, 10) {
            dets.push(Det {
                b: BoxF {
                    xc: 50.0 + r.f32() * 400.0,
                    yc: 50.0 + r.f32() * 300.0,
                    angle: None,
                    aspect: 0.5 + r.f32(),
                    height: 10.0 + r.f32() * 50.0,
                    conf: 0.5,
                },
                custom: None,
                feature: None,
                quality: None,
                truth: u32::MAX,
            });
        }
        if o.twins && !dets.is_empty() && r.chance(1, 8) {
            let d = dets[r.below(dets.len() as u64) as usize].clone();
            dets.push(d);
        }
        r.shuffle(&mut dets);
        // nested detection: a concentric smaller / bigger copy of one detection (same centre and
        // angle, other size) at a random place of the list - own random stream, so older seeds
        // keep the rest of their history
        if (o.own_area || o.stress) && !dets.is_empty() {
            let salt = ((*serial as u64) << 40) ^ ((dets.len() as u64) << 32) ^ dets[0].b.xc.to_bits() as u64;
            let mut r2 = Rng::new(crate::sched::mix(seed ^ 0x004E_57ED_B0C5, salt));
            if r2.chance(1, 3) {
                let k = r2.below(dets.len() as u64) as usize;
                let mut d = dets[k].clone();
                d.b.height *= *r2.pick(&[0.45f32, 0.6, 1.5, 1.9]);
                if r2.chance(1, 2) {
                    d.b.aspect *= *r2.pick(&[0.8f32, 1.25]);
                }
                d.truth = u32::MAX - 2;
                d.feature = None;
                d.quality = None;
                d.custom = None;
                let at = r2.below(dets.len() as u64 + 1) as usize;
                dets.insert(at, d);
            }
        }
        dets
    };
    for _f in 0..frames {
        // new objects appear
        if r.chance(1, 6) && objs.len() < 4 * o.max_objects {
            let s = *r.pick(&scene_ids);
            objs.push(new_obj(&mut r, serial, s, o, None, feat_extra));
            serial += 1;
        }
        let use_batch = o.batches && scene_ids.len() > 1 && (wide || r.chance(1, 2));
        if use_batch {
            let mut scenes = vec![];
            for s in &scene_ids {
                if wide || r.chance(4, 5) {
                    let d = frame_dets(&mut r, &mut objs, *s, &cfg, &mut serial);
                    if !d.is_empty() {
                        scenes.push((*s, d));
                    }
                }
            }
            if !scenes.is_empty() {
                // pipelining-heavy worlds read half of their batches late, on another thread
                let consumer = match (r.below(6), o.late_bias) {
                    (0 | 1, _) | (2, false) => Consumer::Same,
                    (2, true) | (3, false) => Consumer::Other,
                    _ => Consumer::OtherLate,
                };
                ops.push(TOp::Batch { scenes, consumer });
            }
        } else {
            let mut order = scene_ids.clone();
            r.shuffle(&mut order);
            for s in order {
                if r.chance(5, 6) {
                    let d = frame_dets(&mut r, &mut objs, s, &cfg, &mut serial);
                    ops.push(TOp::Predict { scene: s, dets: d });
                }
            }
        }
        if o.lifecycle {
            match r.below(14) {
                0 => ops.push(TOp::Skip { scene: *r.pick(&scene_ids), n: r.range(0, 4) as usize }),
                1 | 2 => ops.push(TOp::Wasted),
                3 | 4 => ops.push(TOp::Idle { scene: *r.pick(&scene_ids) }),
                5 => ops.push(TOp::ClearWasted),
                6 => ops.push(TOp::SetAutoWaste(*r.pick(&[0usize, 1, 2, 3, 7, 100]))),
                7 => ops.push(TOp::Epoch { scene: *r.pick(&[scene_ids[0], 99]) }),
                8 | 9 => ops.push(TOp::Stats),
                _ => {}
            }
        }
    }
    // a quarter of the histories end right after their last predict / batch (own random
    // stream), so that a tracker is also shut down with consumers still reading
    let abrupt_end = Rng::new(seed ^ 0x7A11_0000_0000_0003).chance(1, 4);
    if o.lifecycle && !abrupt_end {
        if r.chance(1, 2) {
            ops.push(TOp::Skip { scene: *r.pick(&scene_ids), n: cfg.max_idle + 1 });
        }
        ops.push(TOp::Wasted);
        ops.push(TOp::Stats);
    }
    TrackerCase { cfg, ops }
}
