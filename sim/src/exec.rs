//! One simulated execution: a fresh OS thread (so std's per-thread HashMap keys are
//! re-derived from this run's hash seed through the interposed `getrandom`), one
//! shuttle Runner with the SimScheduler, exactly one execution of the scenario.

use crate::sched::{SchedSpec, SchedState, SimScheduler};
use similari_verif_rt as rt;
use std::cell::Cell;
use std::collections::BTreeMap;
use std::panic::{self, AssertUnwindSafe};
use std::sync::{Arc, Mutex};

thread_local! {
    static HASH_SEED: Cell<u64> = const { Cell::new(0x1234_5678_9abc_def0) };
    static HASH_CTR: Cell<u64> = const { Cell::new(0) };
    static LAST_PANIC: std::cell::RefCell<Option<String>> = const { std::cell::RefCell::new(None) };
}

/// std obtains the per-thread `RandomState` keys through the libc symbol
/// `getrandom`, which it declares weak "to allow interposition, e.g. for perf
/// measurements that want to disable randomness for consistency". Defining it
/// here makes hash-map iteration order a pure function of the run's hash seed.
#[no_mangle]
pub unsafe extern "C" fn getrandom(buf: *mut u8, buflen: usize, _flags: u32) -> isize {
    let seed = HASH_SEED.with(|s| s.get());
    let mut i = 0usize;
    while i < buflen {
        let c = HASH_CTR.with(|c| {
            let v = c.get();
            c.set(v + 1);
            v
        });
        let v = crate::sched::mix(seed, c).to_le_bytes();
        let n = (buflen - i).min(8);
        std::ptr::copy_nonoverlapping(v.as_ptr(), buf.add(i), n);
        i += n;
    }
    buflen as isize
}

#[derive(Debug, Clone, PartialEq)]
pub enum Abort {
    /// shuttle's deadlock detector fired: list of blocked tasks
    Deadlock(String),
    /// step budget exhausted
    StepBound(String),
    /// a panic inside the code under simulation (library unwrap/assert or harness)
    Panic(String),
}

#[derive(Debug)]
pub struct ExecResult {
    pub abort: Option<Abort>,
    pub steps: u64,
    pub context_switches: u64,
    pub randoms: u64,
    pub tasks: u32,
    pub diverged: bool,
    pub stall_fired: u64,
    pub pct_changes: u64,
    pub trace: Vec<u32>,
    pub defaults: Vec<u32>,
    pub ilv_hash: u64,
    pub n_events: u64,
    pub events: Vec<rt::log::Event>,
    pub probes: BTreeMap<&'static str, u64>,
}

pub struct ExecCfg {
    pub sched: SchedSpec,
    pub hash_seed: u64,
    pub keep_events: bool,
    pub record_trace: bool,
    pub max_steps: usize,
}

static HOOK: std::sync::Once = std::sync::Once::new();

/// Panics on threads that are not simulation threads (the rayon pool used by
/// `exclusively_owned_areas`): rayon re-raises them on the calling simulated task
/// without going through the hook again, so the message is kept here as a fallback.
static FOREIGN_PANIC: Mutex<Option<String>> = Mutex::new(None);
thread_local! {
    /// first panic raised on a driver thread itself (outside any simulated execution)
    static DRIVER_PANIC: std::cell::RefCell<Option<String>> = const { std::cell::RefCell::new(None) };
}

/// Run one evaluation of an engine; a panic that escapes it (library code called outside a
/// simulated execution, or an oracle tripping over a malformed answer) is reported as a
/// violation of the engine's property instead of killing the checker.
pub fn guarded(property: &str, f: impl FnOnce() -> crate::common::Outcome) -> crate::common::Outcome {
    DRIVER_PANIC.with(|p| *p.borrow_mut() = None);
    match panic::catch_unwind(AssertUnwindSafe(f)) {
        Ok(o) => o,
        Err(_) => {
            let msg = DRIVER_PANIC.with(|p| p.borrow_mut().take()).unwrap_or_else(|| "<panic>".into());
            let loc = msg.rsplit(" @ ").next().unwrap_or("").to_string();
            let short = loc.rsplit("/src/").next().unwrap_or(&loc).to_string();
            let mut out = crate::common::Outcome::default();
            out.violation = Some(crate::common::Violation::new(
                property,
                "panic",
                "evaluation",
                &short,
                format!("panic outside a simulated execution while evaluating the case: {msg}"),
            ));
            out
        }
    }
}

thread_local! {
    static IS_SIM_THREAD: Cell<bool> = const { Cell::new(false) };
}

/// Install a quiet panic hook *after* shuttle installed its own (shuttle does so
/// once, on the first run), so panics inside simulated runs are captured as data
/// (message + location) instead of being printed.
pub fn install_quiet_hook() {
    HOOK.call_once(|| {
        // make shuttle install its hook first (Once inside shuttle)
        let cfg = shuttle_cfg(10_000);
        let (s, _st) = SimScheduler::new(SchedSpec::run_to_block(0), false);
        let runner = shuttle::Runner::new(s, cfg);
        runner.run(|| {});
        panic::set_hook(Box::new(|info| {
            let msg = if let Some(s) = info.payload().downcast_ref::<&str>() {
                s.to_string()
            } else if let Some(s) = info.payload().downcast_ref::<String>() {
                s.clone()
            } else {
                "<non-string panic>".to_string()
            };
            let loc = info
                .location()
                .map(|l| format!("{}:{}", l.file(), l.line()))
                .unwrap_or_default();
            if IS_SIM_THREAD.with(|s| s.get()) {
                LAST_PANIC.with(|p| {
                    let mut p = p.borrow_mut();
                    // keep the FIRST panic of a run (later ones are consequences)
                    if p.is_none() {
                        *p = Some(format!("{msg} @ {loc}"));
                    }
                });
            } else {
                DRIVER_PANIC.with(|p| {
                    let mut p = p.borrow_mut();
                    if p.is_none() {
                        *p = Some(format!("{msg} @ {loc}"));
                    }
                });
                if let Ok(mut g) = FOREIGN_PANIC.lock() {
                    *g = Some(format!("{msg} @ {loc}"));
                }
            }
            if std::env::var("SIM_VERBOSE_PANIC").is_ok() {
                eprintln!("panic: {msg} @ {loc}");
                if std::env::var("SIM_VERBOSE_PANIC").map(|v| v == "bt").unwrap_or(false) {
                    eprintln!("{}", std::backtrace::Backtrace::force_capture());
                }
            }
        }));
    });
}

fn shuttle_cfg(max_steps: usize) -> shuttle::Config {
    let mut cfg = shuttle::Config::new();
    cfg.stack_size = 1 << 21;
    cfg.failure_persistence = shuttle::FailurePersistence::None;
    cfg.max_steps = shuttle::MaxSteps::FailAfter(max_steps);
    cfg.silence_warnings = true;
    // Stop scheduling as soon as a task panics. Otherwise, when the unwinding task
    // yields inside a drop handler, shuttle keeps running the OTHER tasks while the
    // OS thread is still `panicking()`; any consequential panic there (poisoned lock
    // `.expect`, `join().expect` in the library's Drop impls) is a double panic and
    // aborts the whole checker instead of reporting the violation.
    cfg.ungraceful_shutdown_config.immediately_return_on_panic = true;
    cfg
}

/// Run `f` exactly once under the simulator. `f` communicates results through
/// whatever it captured (std Arc<Mutex<..>> is fine: all tasks share one OS thread
/// and never hold it across a scheduling point).
pub fn execute<F>(cfg: ExecCfg, f: F) -> ExecResult
where
    F: Fn() + Send + Sync + 'static,
{
    install_quiet_hook();
    let out: Arc<Mutex<Option<ExecResult>>> = Arc::new(Mutex::new(None));
    let out2 = out.clone();
    let (done_tx, done_rx) = std::sync::mpsc::channel::<()>();
    let th = std::thread::Builder::new()
        .stack_size(8 << 20)
        .spawn(move || {
            IS_SIM_THREAD.with(|s| s.set(true));
            HASH_SEED.with(|s| s.set(cfg.hash_seed));
            HASH_CTR.with(|c| c.set(0));
            LAST_PANIC.with(|p| *p.borrow_mut() = None);
            rt::log::reset(true, cfg.keep_events);
            rt::probe::reset();
            let (sched, state) = SimScheduler::new(cfg.sched.clone(), cfg.record_trace);
            let scfg = shuttle_cfg(cfg.max_steps);
            let res = panic::catch_unwind(AssertUnwindSafe(|| {
                let runner = shuttle::Runner::new(sched, scfg);
                runner.run(f);
            }));
            let abort = match res {
                Ok(_) => None,
                Err(payload) => {
                    let pmsg = if let Some(s) = payload.downcast_ref::<&str>() {
                        s.to_string()
                    } else if let Some(s) = payload.downcast_ref::<String>() {
                        s.clone()
                    } else {
                        "<non-string panic>".to_string()
                    };
                    let mut first = LAST_PANIC.with(|p| p.borrow_mut().take());
                    if first.is_none() || pmsg.starts_with("Task panicked, and early return") && first.is_none() {
                        first = FOREIGN_PANIC.lock().ok().and_then(|mut g| g.take());
                    }
                    if pmsg.starts_with("deadlock!") {
                        Some(Abort::Deadlock(pmsg))
                    } else if pmsg.starts_with("exceeded max_steps") {
                        Some(Abort::StepBound(pmsg))
                    } else {
                        Some(Abort::Panic(first.unwrap_or(pmsg)))
                    }
                }
            };
            let (events, ilv_hash, n_events) = rt::log::take();
            let probes = rt::probe::take();
            let st: SchedState = std::mem::take(&mut *state.borrow_mut());
            *out2.lock().unwrap() = Some(ExecResult {
                abort,
                steps: st.steps,
                context_switches: st.context_switches,
                randoms: st.randoms,
                tasks: st.max_tasks,
                diverged: st.diverged,
                stall_fired: st.stall_fired,
                pct_changes: st.pct_changes,
                trace: st.trace,
                defaults: st.defaults,
                ilv_hash,
                n_events,
                events,
                probes,
            });
            let _ = done_tx.send(());
        })
        .expect("spawn sim thread");
    // Watchdog: a simulated execution takes milliseconds. If it does not come back,
    // the code under test blocked on something the simulator does not own (a real
    // std primitive introduced outside the hooked imports): that is a harness
    // limitation, reported as such (exit 2), never as a property verdict.
    if done_rx.recv_timeout(std::time::Duration::from_secs(180)).is_err() && !th.is_finished() {
        eprintln!("HARNESS-ERROR: a simulated execution did not finish within 180 s of wall time; the code under test probably blocks on a primitive that is not routed through the simulation seam");
        println!("HARNESS-ERROR: execution stuck outside the simulator's control (exit 2)");
        std::process::exit(2);
    }
    th.join().expect("sim thread must not die");
    let r = out.lock().unwrap().take().expect("result");
    r
}
