mod common;
mod exec;
mod sched;
mod storesim;
mod trackersim;

use common::*;
use sched::{mix, Mode, SchedSpec};
use serde_json::{json, Value};
use std::collections::{BTreeMap, BTreeSet, HashSet};
use std::sync::atomic::{AtomicBool, AtomicU64, Ordering::SeqCst};
use std::sync::{Arc, Mutex};
use std::time::Instant;

const DEFAULT_SEED: u64 = 20261002;

fn engine_for(prop: &str) -> Option<Box<dyn Engine>> {
    match prop {
        "C09" => Some(Box::new(storesim::StoreEngine { prop: "C09" })),
        "C10" => Some(Box::new(storesim::StoreEngine { prop: "C10" })),
        "C11" => Some(Box::new(storesim::StoreEngine { prop: "C11" })),
        "C01" => Some(Box::new(trackersim::TrackerEngine { prop: "C01" })),
        "C02" => Some(Box::new(trackersim::TrackerEngine { prop: "C02" })),
        "C03" => Some(Box::new(trackersim::TrackerEngine { prop: "C03" })),
        "C04" => Some(Box::new(trackersim::TrackerEngine { prop: "C04" })),
        "C05" => Some(Box::new(trackersim::TrackerEngine { prop: "C05" })),
        "C06" => Some(Box::new(trackersim::TrackerEngine { prop: "C06" })),
        "C20" => Some(Box::new(trackersim::TrackerEngine { prop: "C20" })),
        "C12" => Some(Box::new(trackersim::TrackerEngine { prop: "C12" })),
        "C13" => Some(Box::new(trackersim::TrackerEngine { prop: "C13" })),
        _ => None,
    }
}

fn verif_dir() -> String {
    std::env::var("VERIF_DIR").unwrap_or_else(|_| "/verif".to_string())
}

#[derive(Clone)]
struct Found {
    index: u64,
    case_seed: u64,
    case: Value,
    plan: SchedPlan,
    violation: Violation,
}

struct Known {
    sigs: Vec<(String, String, String)>, // (property, signature prefix, text)
}

fn load_known() -> Known {
    let p = format!("{}/known_findings.json", verif_dir());
    let mut sigs = vec![];
    if let Ok(s) = std::fs::read_to_string(&p) {
        if let Ok(v) = serde_json::from_str::<Value>(&s) {
            if let Some(a) = v["known"].as_array() {
                for k in a {
                    sigs.push((
                        k["property"].as_str().unwrap_or("").to_string(),
                        k["signature"].as_str().unwrap_or("").to_string(),
                        k["what"].as_str().unwrap_or("").to_string(),
                    ));
                }
            }
        }
    }
    Known { sigs }
}

impl Known {
    fn lookup(&self, v: &Violation) -> Option<&(String, String, String)> {
        let s = v.sig();
        self.sigs.iter().find(|(p, sig, _)| *p == v.property && *sig == s)
    }
}

fn plan_for(case_seed: u64) -> SchedPlan {
    SchedPlan::seeded(mix(case_seed, 0x77))
}

struct Agg {
    stats: Stats,
    evals: u64,
    nontrivial_hashes: HashSet<u64>,
    ilv: HashSet<u64>,
    samples: Vec<Value>,
    found: Option<Found>,
    known_hits: BTreeMap<String, (String, u64)>,
    diverged: u64,
    calm_runs: u64,
}

fn eval_hash(o: &Outcome) -> u64 {
    let mut h = 0x9e37u64;
    for x in &o.stats.ilv_hashes {
        h = mix(h, *x);
    }
    h
}

fn run_batch(engine: &dyn Engine, seed: u64, runs: u64, thorough: bool, threads: usize, known: &Known, deadline: Option<Instant>) -> Agg {
    let next = AtomicU64::new(0);
    let stop_after = AtomicU64::new(u64::MAX);
    let timed_out = AtomicBool::new(false);
    let agg = Mutex::new(Agg {
        stats: Stats::default(),
        evals: 0,
        nontrivial_hashes: HashSet::new(),
        ilv: HashSet::new(),
        samples: vec![],
        found: None,
        known_hits: BTreeMap::new(),
        diverged: 0,
        calm_runs: 0,
    });
    std::thread::scope(|s| {
        for _ in 0..threads {
            s.spawn(|| loop {
                let i = next.fetch_add(1, SeqCst);
                if i >= runs || i > stop_after.load(SeqCst) {
                    break;
                }
                if let Some(d) = deadline {
                    if Instant::now() > d {
                        timed_out.store(true, SeqCst);
                        break;
                    }
                }
                let case_seed = mix(seed, i);
                let case = engine.gen_indexed(i, case_seed, thorough);
                let plan = plan_for(case_seed);
                let out = exec::guarded(engine.property(), || engine.run(&case, &plan));
                let mut a = agg.lock().unwrap();
                a.evals += 1;
                a.stats.merge(&out.stats);
                if case["calm"].as_bool().unwrap_or(false) {
                    a.calm_runs += 1;
                }
                for h in &out.stats.ilv_hashes {
                    a.ilv.insert(*h);
                }
                if out.stats.nontrivial {
                    let h = eval_hash(&out);
                    a.nontrivial_hashes.insert(h);
                }
                if out.diverged {
                    a.diverged += 1;
                }
                if a.samples.len() < 2 && (i == 0 || (out.stats.nontrivial && i % 97 == 13)) {
                    a.samples.push(json!({
                        "run_index": i, "case_seed": case_seed, "case": case,
                        "schedules": out.execs.iter().map(|e| serde_json::to_value(&e.spec).unwrap()).collect::<Vec<_>>(),
                        "scheduler_steps": out.execs.iter().map(|e| e.steps).collect::<Vec<_>>(),
                        "verdict": out.violation.as_ref().map(|v| v.sig()).unwrap_or_else(|| "held".into()),
                    }));
                }
                if let Some(v) = out.violation {
                    if let Some((_, _, what)) = known.lookup(&v) {
                        let e = a.known_hits.entry(v.sig()).or_insert((what.clone(), 0));
                        e.1 += 1;
                    } else {
                        let better = a.found.as_ref().map(|f| i < f.index).unwrap_or(true);
                        if better {
                            a.found = Some(Found { index: i, case_seed, case, plan, violation: v });
                        }
                        let cur = stop_after.load(SeqCst);
                        if i < cur {
                            stop_after.store(i, SeqCst);
                        }
                    }
                }
            });
        }
    });
    let mut a = agg.into_inner().unwrap();
    if timed_out.load(SeqCst) {
        a.stats.probe("batch_stopped_at_wall_clock_cap", 1);
    }
    a
}

/// Greedy structural shrinking of the workload, keeping the violation signature.
/// A candidate is accepted if the same signature shows under the original schedule
/// seed or under one of a few fresh ones (editing the workload shifts scheduling points).
fn minimise(engine: &dyn Engine, f: &Found, budget_s: f64) -> Found {
    let t0 = Instant::now();
    let sig = f.violation.sig();
    let mut cur = f.clone();
    let mut tries = 0u64;
    'outer: loop {
        if t0.elapsed().as_secs_f64() > budget_s {
            break;
        }
        let cands = engine.shrink(&cur.case);
        for c in cands {
            if t0.elapsed().as_secs_f64() > budget_s {
                break 'outer;
            }
            for alt in 0..6u64 {
                let mut plan = cur.plan.clone();
                plan.explicit.clear();
                if alt > 0 {
                    plan.seed = mix(cur.plan.seed, alt);
                    plan.hash_seed = mix(cur.plan.hash_seed, alt);
                }
                tries += 1;
                let out = exec::guarded(engine.property(), || engine.run(&c, &plan));
                if let Some(v) = out.violation {
                    if v.sig() == sig {
                        cur = Found { index: f.index, case_seed: f.case_seed, case: c.clone(), plan, violation: v };
                        continue 'outer;
                    }
                }
            }
        }
        break;
    }
    eprintln!("minimiser: {tries} re-executions in {:.1}s", t0.elapsed().as_secs_f64());
    cur
}

/// Rewrite each execution's schedule as run-to-block plus forced switches and remove
/// forced switches while the signature persists.
fn minimise_schedule(engine: &dyn Engine, f: &Found, budget_s: f64) -> (Found, Vec<ExecRecord>) {
    let t0 = Instant::now();
    let sig = f.violation.sig();
    let mut plan = f.plan.clone();
    plan.keep_trace = true;
    let out = exec::guarded(engine.property(), || engine.run(&f.case, &plan));
    let same = out.violation.as_ref().map(|v| v.sig() == sig).unwrap_or(false);
    if !same {
        return (f.clone(), out.execs);
    }
    let mut specs: Vec<Option<SchedSpec>> = out
        .execs
        .iter()
        .map(|e| {
            let forced: Vec<(u32, u32)> = e
                .trace
                .iter()
                .zip(e.defaults.iter())
                .enumerate()
                .filter(|(_, (t, d))| t != d)
                .map(|(i, (t, _))| (i as u32, *t))
                .collect();
            Some(SchedSpec { seed: e.spec.seed, mode: Mode::Overrides { forced } })
        })
        .collect();
    let check = |specs: &Vec<Option<SchedSpec>>| -> Option<Outcome> {
        let mut p = plan.clone();
        p.explicit = specs.clone();
        let o = exec::guarded(engine.property(), || engine.run(&f.case, &p));
        if o.violation.as_ref().map(|v| v.sig() == sig).unwrap_or(false) {
            Some(o)
        } else {
            None
        }
    };
    let mut best_out = match check(&specs) {
        Some(o) => o,
        None => return (f.clone(), out.execs), // override form does not reproduce: keep seeded form
    };
    for k in 0..specs.len() {
        let mut forced = match &specs[k] {
            Some(SchedSpec { mode: Mode::Overrides { forced }, .. }) => forced.clone(),
            _ => continue,
        };
        let mut chunk = (forced.len() / 2).max(1);
        while !forced.is_empty() && t0.elapsed().as_secs_f64() < budget_s {
            let mut i = 0;
            let mut removed_any = false;
            while i < forced.len() && t0.elapsed().as_secs_f64() < budget_s {
                let end = (i + chunk).min(forced.len());
                let mut trial = forced.clone();
                trial.drain(i..end);
                let mut s2 = specs.clone();
                s2[k] = Some(SchedSpec { seed: 0, mode: Mode::Overrides { forced: trial.clone() } });
                if let Some(o) = check(&s2) {
                    forced = trial;
                    specs = s2;
                    best_out = o;
                    removed_any = true;
                } else {
                    i = end;
                }
            }
            if chunk == 1 && !removed_any {
                break;
            }
            chunk = (chunk / 2).max(1);
        }
    }
    let mut g = f.clone();
    g.plan.explicit = specs;
    g.plan.keep_trace = true;
    if let Some(v) = &best_out.violation {
        g.violation = v.clone();
    }
    (g, best_out.execs)
}

fn write_replay(prop: &str, seed: u64, f: &Found, execs: &[ExecRecord], original: &Found) -> String {
    let dir = format!("{}/replays", verif_dir());
    let _ = std::fs::create_dir_all(&dir);
    let body = json!({
        "property": prop,
        "verif_seed": seed,
        "run_index": f.index,
        "case_seed": f.case_seed,
        "signature": f.violation.sig(),
        "message": f.violation.msg,
        "case": f.case,
        "plan": serde_json::to_value(&f.plan).unwrap(),
        "expected_traces_rle": execs.iter().map(|e| rle(&e.trace)).collect::<Vec<_>>(),
        "trace_format": "run-length encoded scheduler decisions per execution: <task id>x<count>, in order",
        "forced_switches": execs.iter().map(|e| match &e.spec.mode { Mode::Overrides{forced} => json!(forced), m => serde_json::to_value(m).unwrap() }).collect::<Vec<_>>(),
        "original_case_ops_hint": original.case.to_string().len(),
        "minimised_case_ops_hint": f.case.to_string().len(),
    });
    let text = serde_json::to_string_pretty(&body).unwrap();
    let h = mix(0x51, text.len() as u64 ^ sched::mix(7, text.bytes().fold(0u64, |a, b| a.wrapping_mul(131).wrapping_add(b as u64))));
    let path = format!("{dir}/{prop}-{seed}-{:08x}.json", h as u32);
    std::fs::write(&path, text).expect("write replay");
    path
}

fn rle(t: &[u32]) -> String {
    let mut out = String::new();
    let mut i = 0;
    while i < t.len() {
        let mut j = i;
        while j < t.len() && t[j] == t[i] {
            j += 1;
        }
        if !out.is_empty() {
            out.push(',');
        }
        out.push_str(&format!("{}x{}", t[i], j - i));
        i = j;
    }
    out
}

fn unrle(s: &str) -> Vec<u32> {
    let mut v = vec![];
    for part in s.split(',').filter(|p| !p.is_empty()) {
        let mut it = part.split('x');
        let t: u32 = it.next().unwrap_or("0").parse().unwrap_or(0);
        let n: usize = it.next().unwrap_or("1").parse().unwrap_or(1);
        for _ in 0..n {
            v.push(t);
        }
    }
    v
}

fn replay(path: &str) -> i32 {
    let text = match std::fs::read_to_string(path) {
        Ok(t) => t,
        Err(e) => {
            eprintln!("cannot read replay file {path}: {e}");
            return 2;
        }
    };
    let v: Value = serde_json::from_str(&text).expect("replay json");
    let prop = v["property"].as_str().unwrap().to_string();
    let engine = engine_for(&prop).expect("engine");
    let mut plan: SchedPlan = serde_json::from_value(v["plan"].clone()).expect("plan");
    plan.keep_trace = true;
    let out = exec::guarded(engine.property(), || engine.run(&v["case"], &plan));
    let expected: Vec<Vec<u32>> = match v.get("expected_traces_rle").and_then(|x| x.as_array()) {
        Some(a) => a.iter().map(|s| unrle(s.as_str().unwrap_or(""))).collect(),
        None => serde_json::from_value(v["expected_traces"].clone()).unwrap_or_default(),
    };
    let got: Vec<Vec<u32>> = out.execs.iter().map(|e| e.trace.clone()).collect();
    let same_schedule = expected == got;
    println!("replay: property={prop} executions={} scheduler_steps={:?} schedule_identical_to_recording={same_schedule}",
        got.len(), got.iter().map(|t| t.len()).collect::<Vec<_>>());
    match out.violation {
        Some(viol) => {
            println!("replay: violation signature {}", viol.sig());
            println!("replay: {}", viol.msg);
            if viol.sig() == v["signature"].as_str().unwrap_or("") {
                println!("VIOLATION property={prop} replay={path}");
                1
            } else {
                println!("replay: DIFFERENT signature than recorded ({})", v["signature"]);
                println!("VIOLATION property={prop} replay={path}");
                1
            }
        }
        None => {
            println!("replay: the recorded violation does not occur on the current tree (schedule identical: {same_schedule})");
            0
        }
    }
}

fn arg_val(args: &[String], name: &str) -> Option<String> {
    args.iter().position(|a| a == name).and_then(|i| args.get(i + 1).cloned())
}

fn main() {
    let args: Vec<String> = std::env::args().collect();
    let cmd = args.get(1).map(|s| s.as_str()).unwrap_or("");
    exec::install_quiet_hook();
    let code = match cmd {
        "run" => cmd_run(&args),
        "replay" => replay(args.get(2).expect("replay <file>")),
        "digest" => cmd_digest(&args),
        "vary" => cmd_vary(&args),
        _ => {
            eprintln!("usage: simcheck run --property C09 --tier quick|thorough [--runs N] | replay <file> | digest --property C09 --runs N");
            2
        }
    };
    std::process::exit(code);
}

/// re-run the case of a replay file under N other schedule / hash seeds (diagnosis:
/// how schedule dependent is a violation?)
fn cmd_vary(args: &[String]) -> i32 {
    let path = args.get(2).expect("vary <file> <n>");
    let n: u64 = args.get(3).map(|s| s.parse().unwrap()).unwrap_or(50);
    let v: Value = serde_json::from_str(&std::fs::read_to_string(path).expect("read")).expect("json");
    let prop = v["property"].as_str().unwrap().to_string();
    let engine = engine_for(&prop).expect("engine");
    let plan0: SchedPlan = serde_json::from_value(v["plan"].clone()).expect("plan");
    let mut hits = 0;
    for i in 0..n {
        let mut plan = plan0.clone();
        plan.explicit.clear();
        plan.seed = mix(plan0.seed, 1000 + i);
        plan.hash_seed = mix(plan0.hash_seed, 1000 + i);
        let out = exec::guarded(engine.property(), || engine.run(&v["case"], &plan));
        if let Some(x) = out.violation {
            hits += 1;
            if hits <= 3 {
                println!("vary {i}: {}", x.sig());
            }
        }
    }
    println!("vary: {hits} of {n} alternative schedules / hash seeds show a violation");
    0
}

/// print one line per run (index, verdict, interleaving hashes): used by the
/// determinism self-test, which diffs the output of separate processes
fn cmd_digest(args: &[String]) -> i32 {
    let prop = arg_val(args, "--property").expect("--property");
    let engine = engine_for(&prop).expect("unknown property");
    // `--runs quick` = the run count of the quick tier (hit-rate measurements of the self-tests)
    let runs: u64 = match arg_val(args, "--runs").as_deref() {
        Some("quick") => engine.runs(false),
        Some(s) => s.parse().unwrap(),
        None => 200,
    };
    let seed: u64 = std::env::var("VERIF_SEED").ok().and_then(|s| s.parse().ok()).unwrap_or(DEFAULT_SEED);
    let threads: usize = std::env::var("SIM_THREADS").ok().and_then(|s| s.parse().ok()).unwrap_or(16);
    let lines = Mutex::new(BTreeMap::new());
    let next = AtomicU64::new(0);
    std::thread::scope(|s| {
        for _ in 0..threads {
            s.spawn(|| loop {
                let i = next.fetch_add(1, SeqCst);
                if i >= runs {
                    break;
                }
                let case_seed = mix(seed, i);
                let case = engine.gen_indexed(i, case_seed, false);
                let out = exec::guarded(engine.property(), || engine.run(&case, &plan_for(case_seed)));
                let line = format!(
                    "{i} {} steps={} ilv={:?}",
                    out.violation.as_ref().map(|v| v.sig()).unwrap_or_else(|| "held".into()),
                    out.stats.steps,
                    out.stats.ilv_hashes
                );
                lines.lock().unwrap().insert(i, line);
            });
        }
    });
    for (_, l) in lines.into_inner().unwrap() {
        println!("{l}");
    }
    0
}

fn cmd_run(args: &[String]) -> i32 {
    let prop = arg_val(args, "--property").expect("--property");
    let tier = arg_val(args, "--tier")
        .or_else(|| std::env::var("VERIF_TIER").ok())
        .unwrap_or_else(|| "quick".into());
    let thorough = tier == "thorough";
    let seed: u64 = std::env::var("VERIF_SEED").ok().and_then(|s| s.parse().ok()).unwrap_or(DEFAULT_SEED);
    let threads: usize = std::env::var("SIM_THREADS").ok().and_then(|s| s.parse().ok()).unwrap_or(16);
    let Some(engine) = engine_for(&prop) else {
        eprintln!("no engine for property {prop}");
        return 2;
    };
    let runs: u64 = arg_val(args, "--runs").map(|s| s.parse().unwrap()).unwrap_or_else(|| engine.runs(thorough));
    // wall-clock cap per batch (never inside a run): thorough batches stop after 30 min
    let cap_s: Option<f64> = arg_val(args, "--max-seconds")
        .map(|s| s.parse().unwrap())
        .or(if thorough { Some(1800.0) } else { None });
    let known = load_known();
    println!("simcheck: property={prop} tier={tier} VERIF_SEED={seed} runs={runs} threads={threads}");
    let t0 = Instant::now();
    let deadline = cap_s.map(|s| t0 + std::time::Duration::from_secs_f64(s));
    let agg = run_batch(engine.as_ref(), seed, runs, thorough, threads, &known, deadline);
    let wall = t0.elapsed().as_secs_f64();
    let mut violations = 0;
    let mut replay_path = None;
    let mut viol_json = Value::Null;
    for (sig, (what, n)) in &agg.known_hits {
        println!("KNOWN-FINDING: property={prop} {what} [signature {sig}, seen in {n} runs]");
    }
    if let Some(f) = &agg.found {
        violations = 1;
        eprintln!("violation at run {} (case seed {}): {} — minimising", f.index, f.case_seed, f.violation.sig());
        // SIM_NO_MINIMISE=1: sensitivity sweeps only need the verdict, not a minimal replay
        let quick_report = std::env::var("SIM_NO_MINIMISE").map(|v| v == "1").unwrap_or(false);
        let m = minimise(engine.as_ref(), f, if quick_report { 0.0 } else if thorough { 120.0 } else { 40.0 });
        let (m2, execs) = minimise_schedule(engine.as_ref(), &m, if quick_report { 0.0 } else if thorough { 60.0 } else { 20.0 });
        let path = write_replay(&prop, seed, &m2, &execs, f);
        println!("violation: {}", m2.violation.sig());
        println!("violation: {}", m2.violation.msg.chars().take(1500).collect::<String>());
        println!("VIOLATION property={prop} replay={path}");
        viol_json = json!({"signature": m2.violation.sig(), "message": m2.violation.msg.chars().take(800).collect::<String>(), "run_index": f.index, "replay": path});
        replay_path = Some(path);
    }
    let _ = replay_path;
    // evidence
    let st = &agg.stats;
    let distinct_nontrivial = agg.nontrivial_hashes.len() as u64;
    let ev = json!({
        "property_id": prop,
        "tier": if thorough { "thorough" } else { "quick" },
        "seed": seed,
        "level": engine.level(),
        "wall_s": wall,
        "violations": violations,
        "coverage": {
            "evaluations": agg.evals,
            "distinct_nontrivial": distinct_nontrivial,
            "rule": engine.rule(),
            "samples": agg.samples,
            "simulated_executions": st.execs,
            "runs_per_hour": (agg.evals as f64 / wall.max(1e-9) * 3600.0) as u64,
            "seeds_per_hour": (agg.evals as f64 / wall.max(1e-9) * 3600.0) as u64,
            "simulated_time": { "scheduler_steps": st.steps, "operations": st.ops, "epochs": st.epochs,
                                 "note": "the library has no wall clock; simulated time is scheduler steps, API operations and tracker epochs" },
            "context_switches": st.context_switches,
            "scheduler_random_values_served": st.randoms,
            "channel_and_op_events": st.events,
            "max_simulated_tasks": st.max_tasks,
            "distinct_interleavings": agg.ilv.len(),
            "interleaving_measure": "distinct 64-bit hashes of the per-execution sequence (task id, event kind, /repo source line) over channel create/send/recv/block/disconnect and operation invoke/return events in global order",
            "faults_injected_fired": st.faults,
            "fault_free_runs": agg.calm_runs,
            "reach_probes": st.probes,
            "known_findings_seen": agg.known_hits.iter().map(|(k, (_, n))| (k.clone(), *n)).collect::<BTreeMap<_, _>>(),
            "violation": viol_json,
            "components": {
                "real": ["all of /repo/src (current working tree, --cfg similari_verif)", "nalgebra", "pathfinding", "geo", "itertools", "rayon"],
                "modelled": ["std threads / Mutex / RwLock / Condvar (shuttle 0.9.3)", "crossbeam channels (FIFO model, /verif/shims/crossbeam)", "rand::thread_rng (scheduler-fed)", "process entropy for HashMap RandomState (seeded getrandom)"],
                "absent": ["python bindings (feature off)"]
            },
            "exhaustive": false
        },
        "assumptions": engine.assumptions(),
    });
    let dir = format!("{}/evidence", verif_dir());
    let _ = std::fs::create_dir_all(&dir);
    std::fs::write(format!("{dir}/{prop}.json"), serde_json::to_string_pretty(&ev).unwrap()).expect("write evidence");
    println!(
        "simcheck: {} evaluations, {} simulated executions, {} steps, {} distinct interleavings ({} non-trivial), {:.1}s, violations={}",
        agg.evals, st.execs, st.steps, agg.ilv.len(), distinct_nontrivial, wall, violations
    );
    let _ = BTreeSet::<u8>::new();
    if violations > 0 {
        1
    } else {
        0
    }
}
