mod exec;
mod sched;

use sched::{SchedSpec, Mode};
use similari::prelude::*;
use similari::trackers::tracker_api::TrackerAPI;
use std::sync::{Arc, Mutex};

fn smoke(seed: u64, hash_seed: u64, shards: usize) -> (u64, u64, u64, Option<exec::Abort>, String) {
    let out = Arc::new(Mutex::new(String::new()));
    let o2 = out.clone();
    let r = exec::execute(
        exec::ExecCfg { sched: SchedSpec::swarm(seed, 2 * shards as u32), hash_seed, keep_events: false, record_trace: true, max_steps: 300_000 },
        move || {
            let mut t = Sort::new(shards, 5, 2, PositionalMetricType::IoU(0.3), 0.05, None, 1.0/20.0, 1.0/160.0);
            let mut s = String::new();
            for e in 0..6 {
                let dets: Vec<_> = (0..4).map(|i| (BoundingBox::new(10.0 * i as f32 + e as f32, 5.0, 8.0, 12.0).as_xyaah(), Some(i as i64))).collect();
                let res = t.predict(&dets);
                for r in res { s.push_str(&format!("{}:{}:{} ", r.id, r.length, r.epoch)); }
            }
            t.skip_epochs(5);
            let w = t.wasted();
            let mut ids: Vec<u64> = w.iter().map(|x| x.get_track_id()).collect();
            let hm: std::collections::HashMap<u64,u64> = (0..8).map(|i| (i, i)).collect();
            s.push_str(&format!("| hm {:?}", hm.keys().collect::<Vec<_>>()));
            s.push_str(&format!("| wasted-order {:?}", ids));
            ids.sort();
            *o2.lock().unwrap() = s;
        },
    );
    let s = out.lock().unwrap().clone();
    (r.steps, r.ilv_hash, r.context_switches, r.abort, s)
}

fn main() {
    let args: Vec<String> = std::env::args().collect();
    let n: u64 = args.get(1).map(|s| s.parse().unwrap()).unwrap_or(5);
    let t0 = std::time::Instant::now();
    for seed in 0..n {
        let a = smoke(seed, seed * 7 + 1, 3);
        let b = smoke(seed, seed * 7 + 1, 3);
        if n <= 10 { println!("{seed}: {:?} {:?}", a, SchedSpec::swarm(seed, 6).mode); }
        assert_eq!(format!("{:?}", a), format!("{:?}", b), "nondeterminism at seed {seed}");
        let c = smoke(seed, seed * 7 + 2, 3);
        if n <= 10 { println!("   other hash seed: {}", c.4); }
    }
    println!("ok {} runs in {:?}", n * 3, t0.elapsed());
    let _ = Mode::Uniform;
}
