//! The simulator's scheduler: one seeded PRNG decides every interleaving and
//! every random value the code under test draws. One `SchedSpec` = one exactly
//! repeatable execution.

use serde::{Deserialize, Serialize};
use shuttle::scheduler::{Schedule, Scheduler, Task, TaskId};
use std::cell::RefCell;
use std::rc::Rc;

/// SplitMix64 — small, fast, good enough, and has no dependency.
#[derive(Clone, Debug, Serialize, Deserialize)]
pub struct Rng(pub u64);

impl Rng {
    pub fn new(seed: u64) -> Self {
        Rng(seed)
    }
    pub fn next(&mut self) -> u64 {
        self.0 = self.0.wrapping_add(0x9E3779B97F4A7C15);
        let mut z = self.0;
        z = (z ^ (z >> 30)).wrapping_mul(0xBF58476D1CE4E5B9);
        z = (z ^ (z >> 27)).wrapping_mul(0x94D049BB133111EB);
        z ^ (z >> 31)
    }
    pub fn below(&mut self, n: u64) -> u64 {
        if n == 0 {
            0
        } else {
            self.next() % n
        }
    }
    pub fn range(&mut self, lo: i64, hi_incl: i64) -> i64 {
        lo + self.below((hi_incl - lo + 1) as u64) as i64
    }
    pub fn chance(&mut self, num: u64, den: u64) -> bool {
        self.below(den) < num
    }
    pub fn f64(&mut self) -> f64 {
        (self.next() >> 11) as f64 / (1u64 << 53) as f64
    }
    pub fn f32(&mut self) -> f32 {
        self.f64() as f32
    }
    pub fn pick<'a, T>(&mut self, v: &'a [T]) -> &'a T {
        &v[self.below(v.len() as u64) as usize]
    }
    pub fn shuffle<T>(&mut self, v: &mut [T]) {
        for i in (1..v.len()).rev() {
            let j = self.below(i as u64 + 1) as usize;
            v.swap(i, j);
        }
    }
    pub fn fork(&mut self) -> Rng {
        Rng(self.next())
    }
}

pub fn mix(a: u64, b: u64) -> u64 {
    let mut r = Rng(a ^ b.wrapping_mul(0xD6E8FEB86659FD93));
    r.next();
    r.next()
}

#[derive(Clone, Debug, Serialize, Deserialize, PartialEq)]
pub enum Mode {
    /// uniform choice among runnable tasks at every scheduling point
    Uniform,
    /// keep the running task with probability pct/100, else uniform
    Sticky { pct: u8 },
    /// probabilistic concurrency testing: random priorities, `depth` change points
    Pct { depth: u8, horizon: u32 },
    /// the stalled-node fault: `victims` (task ids) are never scheduled during
    /// steps [at, at+len) while anything else can run; otherwise Sticky(50)
    Stall { victims: Vec<u32>, at: u32, len: u32 },
    /// deterministic baseline: run the current task until it blocks, then lowest id
    RunToBlock,
    /// run-to-block plus forced choices at given steps (used for minimised replays)
    Overrides { forced: Vec<(u32, u32)> },
    /// follow a recorded decision list exactly
    Script { decisions: Vec<u32> },
}

#[derive(Clone, Debug, Serialize, Deserialize, PartialEq)]
pub struct SchedSpec {
    pub seed: u64,
    pub mode: Mode,
}

impl SchedSpec {
    pub fn run_to_block(seed: u64) -> Self {
        SchedSpec {
            seed,
            mode: Mode::RunToBlock,
        }
    }
    /// swarm: draw a personality from the seed
    pub fn swarm(seed: u64, n_tasks_hint: u32) -> Self {
        let mut r = Rng::new(mix(seed, 0x5157));
        let mode = match r.below(10) {
            0..=2 => Mode::Uniform,
            3..=4 => Mode::Sticky {
                pct: *r.pick(&[50u8, 80, 95]),
            },
            5..=6 => Mode::Pct {
                depth: r.range(1, 4) as u8,
                horizon: *r.pick(&[200u32, 1000, 5000]),
            },
            7..=8 => {
                let nv = r.range(1, 2);
                let mut victims = vec![];
                for _ in 0..nv {
                    victims.push(r.below(n_tasks_hint.max(1) as u64 + 1) as u32);
                }
                Mode::Stall {
                    victims,
                    at: r.below(400) as u32,
                    len: *r.pick(&[20u32, 100, 1000, 100000]),
                }
            }
            _ => Mode::RunToBlock,
        };
        SchedSpec { seed, mode }
    }
}

#[derive(Default, Debug)]
pub struct SchedState {
    /// chosen task per scheduling step
    pub trace: Vec<u32>,
    /// what run-to-block would have chosen at that step
    pub defaults: Vec<u32>,
    pub randoms: u64,
    pub diverged: bool,
    pub context_switches: u64,
    pub max_tasks: u32,
    pub stall_fired: u64,
    pub pct_changes: u64,
    pub steps: u64,
}

pub struct SimScheduler {
    spec: SchedSpec,
    rng: Rng,
    data_rng: Rng,
    started: bool,
    step: u32,
    prio: Vec<u64>,
    change_points: Vec<u32>,
    pub state: Rc<RefCell<SchedState>>,
    record: bool,
}

impl SimScheduler {
    pub fn new(spec: SchedSpec, record: bool) -> (Self, Rc<RefCell<SchedState>>) {
        let state = Rc::new(RefCell::new(SchedState::default()));
        let mut rng = Rng::new(mix(spec.seed, 1));
        let data_rng = Rng::new(mix(spec.seed, 2));
        let mut change_points = vec![];
        if let Mode::Pct { depth, horizon } = &spec.mode {
            for _ in 0..depth.saturating_sub(1) {
                change_points.push(rng.below(*horizon as u64) as u32);
            }
        }
        (
            SimScheduler {
                spec,
                rng,
                data_rng,
                started: false,
                step: 0,
                prio: vec![],
                change_points,
                state: state.clone(),
                record,
            },
            state,
        )
    }

    fn prio_of(&mut self, t: usize) -> u64 {
        while self.prio.len() <= t {
            // high random priorities; change points assign low ones (< 1<<20)
            let p = (1 << 20) + (self.rng.next() >> 24);
            self.prio.push(p);
        }
        self.prio[t]
    }
}

/// Run-to-block default: keep the current task while it can run. A task that *yields*
/// (spin / poll loops, `sleep`, timed receives) hands over to the next runnable task in
/// cyclic id order, so that polling code makes progress under the deterministic
/// personalities too instead of spinning into the step bound.
fn default_choice(runnable: &[&Task], current: Option<TaskId>, is_yielding: bool) -> TaskId {
    if let Some(c) = current {
        if is_yielding && runnable.len() > 1 {
            let ci = usize::from(c);
            let mut ids: Vec<usize> = runnable.iter().map(|t| usize::from(t.id())).collect();
            ids.sort_unstable();
            let next = ids.iter().copied().find(|i| *i > ci).unwrap_or(ids[0]);
            return TaskId::from(next);
        }
        if runnable.iter().any(|t| t.id() == c) {
            return c;
        }
    }
    runnable.iter().map(|t| t.id()).min().unwrap()
}

impl Scheduler for SimScheduler {
    fn new_execution(&mut self) -> Option<Schedule> {
        if self.started {
            None
        } else {
            self.started = true;
            Some(Schedule::new(self.spec.seed))
        }
    }

    fn next_task(
        &mut self,
        runnable: &[&Task],
        current: Option<TaskId>,
        is_yielding: bool,
    ) -> Option<TaskId> {
        let step = self.step;
        self.step += 1;
        let dflt = default_choice(runnable, current, is_yielding);
        let is_runnable = |id: u32| runnable.iter().any(|t| usize::from(t.id()) as u32 == id);
        let uniform = |rng: &mut Rng| runnable[rng.below(runnable.len() as u64) as usize].id();
        let mut diverged = false;
        let choice: TaskId = match &self.spec.mode {
            Mode::Uniform => uniform(&mut self.rng),
            Mode::Sticky { pct } => {
                let stay = self.rng.below(100) < *pct as u64;
                let u = uniform(&mut self.rng);
                match current {
                    Some(c) if stay && !is_yielding && runnable.iter().any(|t| t.id() == c) => c,
                    _ => u,
                }
            }
            Mode::Pct { .. } => {
                if self.change_points.contains(&step) || is_yielding {
                    if let Some(c) = current {
                        let ci = usize::from(c);
                        self.prio_of(ci);
                        // lower than every other priority handed out so far
                        self.prio[ci] = (1 << 19) - step as u64 % (1 << 19);
                        self.state.borrow_mut().pct_changes += 1;
                    }
                }
                let mut best = runnable[0].id();
                let mut bp = 0u64;
                for t in runnable {
                    let p = self.prio_of(usize::from(t.id()));
                    if p >= bp {
                        bp = p;
                        best = t.id();
                    }
                }
                best
            }
            Mode::Stall { victims, at, len } => {
                let stalled = step >= *at && (step - *at) < *len;
                let stay = self.rng.below(100) < 50;
                let pool: Vec<TaskId> = if stalled {
                    let p: Vec<TaskId> = runnable
                        .iter()
                        .map(|t| t.id())
                        .filter(|t| !victims.contains(&(usize::from(*t) as u32)))
                        .collect();
                    if p.is_empty() {
                        runnable.iter().map(|t| t.id()).collect()
                    } else {
                        if p.len() < runnable.len() {
                            self.state.borrow_mut().stall_fired += 1;
                        }
                        p
                    }
                } else {
                    runnable.iter().map(|t| t.id()).collect()
                };
                let u = pool[self.rng.below(pool.len() as u64) as usize];
                match current {
                    Some(c) if stay && !is_yielding && pool.contains(&c) => c,
                    _ => u,
                }
            }
            Mode::RunToBlock => dflt,
            Mode::Overrides { forced } => {
                match forced.iter().find(|(s, _)| *s == step) {
                    Some((_, t)) if is_runnable(*t) => TaskId::from(*t as usize),
                    _ => dflt,
                }
            }
            Mode::Script { decisions } => match decisions.get(step as usize) {
                Some(t) if is_runnable(*t) => TaskId::from(*t as usize),
                _ => {
                    diverged = true;
                    dflt
                }
            },
        };
        {
            let mut st = self.state.borrow_mut();
            st.steps += 1;
            if diverged {
                st.diverged = true;
            }
            if current.is_some() && current != Some(choice) {
                st.context_switches += 1;
            }
            let mt = runnable.iter().map(|t| usize::from(t.id())).max().unwrap() as u32 + 1;
            if mt > st.max_tasks {
                st.max_tasks = mt;
            }
            if self.record {
                st.trace.push(usize::from(choice) as u32);
                st.defaults.push(usize::from(dflt) as u32);
            }
        }
        Some(choice)
    }

    fn next_u64(&mut self) -> u64 {
        self.state.borrow_mut().randoms += 1;
        self.data_rng.next()
    }
}
