pub mod engine;
pub mod model;
pub mod ops;
pub mod systematic;
pub mod tracklevel;
pub mod types;

use crate::common::*;
use crate::sched::{mix, Rng};
use engine::*;
use ops::*;
use serde_json::{json, Value};

pub fn exec_store(
    out: &mut Outcome,
    prop: &'static str,
    case: &StoreCase,
    plan: &SchedPlan,
    k: usize,
) -> Option<ClientResult> {
    use std::sync::{Arc, Mutex};
    let shared: Arc<Mutex<Option<ClientResult>>> = Arc::new(Mutex::new(None));
    let s2 = shared.clone();
    let case2 = case.clone();
    let r = run_exec(out, plan, k, false, case.cfg.shards as u32, move || {
        let res = client_main(&case2, prop);
        *s2.lock().unwrap() = Some(res);
    });
    let cres = shared.lock().unwrap().take();
    if let Some(c) = &cres {
        out.stats.ops += c.ops_done;
        for (k, v) in &c.probes {
            out.stats.probe(k, *v);
        }
        for (k, v) in &c.faults {
            out.stats.fault(k, *v);
        }
        if out.violation.is_none() {
            if let Some(v) = &c.violation {
                out.violation = Some(v.clone());
            }
        }
    }
    out.stats.fault("hash-and-id-entropy", 1);
    if let Some(a) = &r.abort {
        // a panic / deadlock / livelock inside the store or its workers: the map
        // stopped behaving like a map -> C09's business; the other store checks
        // only count it
        if prop == "C09" {
            if out.violation.is_none() {
                out.violation = Some(abort_violation(prop, "run", a));
            }
        } else {
            out.stats.probe("foreign_abort", 1);
        }
    }
    if cres.as_ref().map(|c| c.ops_done >= 2).unwrap_or(false) && r.context_switches > 0 {
        out.stats.nontrivial = true;
    }
    cres
}

fn shrink_store_case(case: &StoreCase) -> Vec<StoreCase> {
    let mut v = vec![];
    let n = case.ops.len();
    // drop chunks of operations, big chunks first
    let mut chunk = n / 2;
    while chunk >= 1 {
        let mut start = 0;
        while start < n {
            let end = (start + chunk).min(n);
            let mut c = case.clone();
            c.ops.drain(start..end);
            if !c.ops.is_empty() {
                v.push(c);
            }
            start += chunk;
        }
        if chunk == 1 {
            break;
        }
        chunk /= 2;
    }
    if case.cfg.shards > 1 {
        let mut c = case.clone();
        c.cfg.shards = 1;
        v.push(c);
        let mut c = case.clone();
        c.cfg.shards -= 1;
        v.push(c);
    }
    if case.cfg.none_mod != 0 {
        let mut c = case.clone();
        c.cfg.none_mod = 0;
        v.push(c);
    }
    if case.cfg.post_mod != 0 {
        let mut c = case.clone();
        c.cfg.post_mod = 0;
        v.push(c);
    }
    let simp_spec = |s: &TrackSpec| -> Option<TrackSpec> {
        if !s.obs.is_empty() {
            let mut t = s.clone();
            t.obs.pop();
            Some(t)
        } else if s.group != 0 || s.status != 0 || s.poison_merge {
            let mut t = s.clone();
            t.group = 0;
            t.status = 0;
            t.poison_merge = false;
            Some(t)
        } else {
            None
        }
    };
    for (i, op) in case.ops.iter().enumerate() {
        let mut alts: Vec<Op> = vec![];
        match op {
            Op::AddTrack(s) => {
                if let Some(t) = simp_spec(s) {
                    alts.push(Op::AddTrack(t))
                }
            }
            Op::NewTrack(s) => {
                if let Some(t) = simp_spec(s) {
                    alts.push(Op::NewTrack(t))
                }
            }
            Op::Add { id, class, obs, upd, fail_nth } => {
                if fail_nth.is_some() {
                    alts.push(Op::Add { id: *id, class: *class, obs: *obs, upd: upd.clone(), fail_nth: None });
                }
                if upd.is_some() {
                    alts.push(Op::Add { id: *id, class: *class, obs: *obs, upd: None, fail_nth: *fail_nth });
                }
            }
            Op::MergeOwned { dest, src, classes, remove, hist, fail_nth } => {
                if fail_nth.is_some() {
                    alts.push(Op::MergeOwned { dest: *dest, src: *src, classes: classes.clone(), remove: *remove, hist: *hist, fail_nth: None });
                }
                if classes.is_some() {
                    alts.push(Op::MergeOwned { dest: *dest, src: *src, classes: None, remove: *remove, hist: *hist, fail_nth: *fail_nth });
                }
                if *hist {
                    alts.push(Op::MergeOwned { dest: *dest, src: *src, classes: classes.clone(), remove: *remove, hist: false, fail_nth: *fail_nth });
                }
            }
            Op::MergeExt { dest, src, classes, hist, fail_nth } => {
                if fail_nth.is_some() {
                    alts.push(Op::MergeExt { dest: *dest, src: src.clone(), classes: classes.clone(), hist: *hist, fail_nth: None });
                }
                if classes.is_some() {
                    alts.push(Op::MergeExt { dest: *dest, src: src.clone(), classes: None, hist: *hist, fail_nth: *fail_nth });
                }
                if let Some(t) = simp_spec(src) {
                    alts.push(Op::MergeExt { dest: *dest, src: t, classes: classes.clone(), hist: *hist, fail_nth: *fail_nth });
                }
            }
            Op::MergeNoblock { slot, dest, src, classes, hist } => {
                if let Some(t) = simp_spec(src) {
                    alts.push(Op::MergeNoblock { slot: *slot, dest: *dest, src: t, classes: classes.clone(), hist: *hist });
                }
                if classes.is_some() {
                    alts.push(Op::MergeNoblock { slot: *slot, dest: *dest, src: src.clone(), classes: None, hist: *hist });
                }
            }
            Op::ForeignIssue { slot, cands, class, only_baked } => {
                if cands.len() > 1 {
                    for j in 0..cands.len() {
                        let mut c2 = cands.clone();
                        c2.remove(j);
                        alts.push(Op::ForeignIssue { slot: *slot, cands: c2, class: *class, only_baked: *only_baked });
                    }
                }
                if *only_baked {
                    alts.push(Op::ForeignIssue { slot: *slot, cands: cands.clone(), class: *class, only_baked: false });
                }
            }
            Op::OwnedIssue { slot, ids, class, only_baked } => {
                if ids.len() > 1 {
                    for j in 0..ids.len() {
                        let mut c2 = ids.clone();
                        c2.remove(j);
                        alts.push(Op::OwnedIssue { slot: *slot, ids: c2, class: *class, only_baked: *only_baked });
                    }
                }
                if *only_baked {
                    alts.push(Op::OwnedIssue { slot: *slot, ids: ids.clone(), class: *class, only_baked: false });
                }
            }
            Op::Drain { slot, ok, err } => {
                if *ok != Drain::All || *err != Drain::All {
                    alts.push(Op::Drain { slot: *slot, ok: Drain::All, err: Drain::All });
                }
            }
            _ => {}
        }
        for a in alts {
            let mut c = case.clone();
            c.ops[i] = a;
            v.push(c);
        }
    }
    v
}

pub struct StoreEngine {
    pub prop: &'static str,
}

impl StoreEngine {
    fn opts(&self, thorough: bool, r: &mut Rng, calm: bool) -> GenOpts {
        let profile = match self.prop {
            "C09" => 0,
            "C10" => 1,
            _ => 2,
        };
        GenOpts {
            max_ops: if thorough {
                *r.pick(&[6usize, 12, 30, 80, 200])
            } else {
                *r.pick(&[6usize, 12, 30, 60])
            },
            ids: *r.pick(&[4u64, 6, 12]),
            faults: !calm,
            cancel: !calm,
            profile,
        }
    }
}

impl Engine for StoreEngine {
    fn property(&self) -> &'static str {
        self.prop
    }

    fn gen(&self, seed: u64, thorough: bool) -> Value {
        let mut r = Rng::new(mix(seed, 0x57));
        // first quarter of the seed space: fault-free configuration
        let calm = r.below(1000) < self.calm_permille();
        let o = self.opts(thorough, &mut r, calm);
        let mut case = gen_case(mix(seed, 0x58), &o);
        if self.prop == "C11" {
            let _ = &mut case;
            let tc = tracklevel::gen_track_case(mix(seed, 0x59), true);
            return json!({ "store": serde_json::to_value(&case).unwrap(), "calm": calm,
                           "track": serde_json::to_value(&tc).unwrap() });
        }
        if self.prop == "C10" && Rng::new(mix(seed, 0x5A)).chance(1, 6) {
            // cross-shard differential (see run): every query fully drained, no un-awaited
            // merges (their effect is legitimately schedule dependent), no armed faults
            let mut c = case.clone();
            c.cfg.group_hook = true;
            let mut ops = vec![];
            for op in c.ops.into_iter() {
                match op {
                    Op::MergeNoblock { dest, src, classes, hist, .. } => ops.push(Op::MergeExt { dest, src, classes, hist, fail_nth: None }),
                    Op::FutGet(_) | Op::FutReady(_) | Op::FutDrop(_) => {}
                    Op::Drain { slot, .. } => ops.push(Op::Drain { slot, ok: Drain::All, err: Drain::All }),
                    Op::Add { id, class, obs, upd, .. } => ops.push(Op::Add { id, class, obs, upd, fail_nth: None }),
                    Op::MergeOwned { dest, src, classes, remove, hist, .. } => ops.push(Op::MergeOwned { dest, src, classes, remove, hist, fail_nth: None }),
                    Op::MergeExt { dest, src, classes, hist, .. } => ops.push(Op::MergeExt { dest, src, classes, hist, fail_nth: None }),
                    o => ops.push(o),
                }
            }
            c.ops = ops;
            let other = 1 + (c.cfg.shards % 5);
            return json!({ "store": serde_json::to_value(&c).unwrap(), "calm": calm, "xshard": other });
        }
        json!({ "store": serde_json::to_value(&case).unwrap(), "calm": calm })
    }

    fn gen_indexed(&self, index: u64, seed: u64, thorough: bool) -> Value {
        // small-scope sub-batch: every history of up to N operations over a fixed alphabet.
        // quick tier: after the random runs (their indices, hence cases, stay what they were);
        // thorough tier: first, because the wall-clock cap may cut the random tail short
        let random = self.random_runs(thorough);
        let sys = systematic::total(self.systematic_len(thorough));
        let sys_index = if thorough {
            if index >= sys {
                return self.gen(seed, thorough);
            }
            index
        } else {
            if index < random {
                return self.gen(seed, thorough);
            }
            index - random
        };
        let case = systematic::case(sys_index, self.systematic_len(thorough));
        if self.prop == "C11" {
            return json!({ "store": serde_json::to_value(&case).unwrap(), "calm": false, "systematic": true, "track": Value::Null });
        }
        json!({ "store": serde_json::to_value(&case).unwrap(), "calm": false, "systematic": true })
    }

    fn run(&self, case: &Value, plan: &SchedPlan) -> Outcome {
        let sc: StoreCase = serde_json::from_value(case["store"].clone()).expect("store case");
        let mut out = Outcome::default();
        if case["systematic"].as_bool().unwrap_or(false) {
            out.stats.probe("small_scope_enumerated_histories", 1);
        }
        let mut plan = plan.clone();
        plan.calm = case["calm"].as_bool().unwrap_or(false);
        if self.prop == "C10" && sc.cfg.group_hook {
            // C10 "the multiset of results is the same for every shard count", decided without
            // any model of the post-processing hook: the same history on two shard counts with a
            // group-dependent hook; every drained query must return the same multiset
            out.stats.probe("cross_shard_differentials", 1);
            let a = exec_store(&mut out, self.prop, &sc, &plan, 0);
            if out.violation.is_some() {
                return out;
            }
            let mut sc2 = sc.clone();
            sc2.cfg.shards = case["xshard"].as_u64().unwrap_or(1) as usize;
            let b = exec_store(&mut out, self.prop, &sc2, &plan, 1);
            if out.violation.is_some() {
                return out;
            }
            if let (Some(a), Some(b)) = (a, b) {
                if a.finished && b.finished {
                    for (x, y) in a.dist_log.iter().zip(b.dist_log.iter()) {
                        if x != y {
                            out.violation = Some(Violation::new(
                                "C10",
                                "shard-dependent-results",
                                "distance_query",
                                if x.1.len() != y.1.len() { "count" } else { "different" },
                                format!("query #{}: {} shards give {:?} (+{} errors), {} shards give {:?} (+{} errors)", x.0, sc.cfg.shards, x.1, x.2, sc2.cfg.shards, y.1, y.2),
                            ));
                            return out;
                        }
                    }
                }
            }
            return out;
        }
        if self.prop != "C11" {
            exec_store(&mut out, self.prop, &sc, &plan, 0);
            return out;
        }
        // C11, track level: every fault position of one operation on one base track
        if let Some(t) = case.get("track") {
            if !t.is_null() {
                let tc: tracklevel::TrackCase = serde_json::from_value(t.clone()).expect("track case");
                let r = tracklevel::run_track_case(&tc);
                out.stats.ops += r.ops;
                out.stats.probe("fault_positions_enumerated_track", r.positions);
                out.stats.fault("callback-error", r.fired);
                if r.violation.is_some() {
                    out.violation = r.violation;
                    return out;
                }
            }
        }
        // C11: fault enumeration over one target operation of the history.
        // exec 0: as generated (its own random fail_nth values), counting callback
        // invocations per faultable blocking op.
        let mut counting = sc.clone();
        for op in &mut counting.ops {
            match op {
                Op::Add { fail_nth, .. } | Op::MergeOwned { fail_nth, .. } | Op::MergeExt { fail_nth, .. } => {
                    if fail_nth.is_none() {
                        *fail_nth = Some(-1);
                    }
                }
                _ => {}
            }
        }
        let base = exec_store(&mut out, self.prop, &counting, &plan, 0);
        if out.violation.is_some() {
            return out;
        }
        let Some(base) = base else { return out };
        // choose the target: the faultable op with the most callback invocations
        // (ties: the later one), then fail each of its invocations in turn
        let target = base
            .cb_counts
            .iter()
            .filter(|(_, n)| **n > 0)
            .max_by_key(|(i, n)| (**n, **i))
            .map(|(i, n)| (*i, *n));
        if let Some((ti, n)) = target {
            for k in 0..n {
                let mut c = counting.clone();
                match &mut c.ops[ti] {
                    Op::Add { fail_nth, .. } | Op::MergeOwned { fail_nth, .. } | Op::MergeExt { fail_nth, .. } => {
                        *fail_nth = Some(k)
                    }
                    _ => {}
                }
                exec_store(&mut out, self.prop, &c, &plan, 1 + k as usize);
                out.stats.probe("fault_positions_enumerated_store", 1);
                if out.violation.is_some() {
                    return out;
                }
            }
        }
        out
    }

    fn shrink(&self, case: &Value) -> Vec<Value> {
        let sc: StoreCase = serde_json::from_value(case["store"].clone()).expect("store case");
        let track = case.get("track").cloned().unwrap_or(Value::Null);
        let mut v: Vec<Value> = vec![];
        if !track.is_null() {
            // the two halves are independent: try each one alone first
            if !sc.ops.is_empty() {
                let mut e = sc.clone();
                e.ops.clear();
                v.push(json!({ "store": serde_json::to_value(&e).unwrap(), "calm": case["calm"], "track": track }));
            }
            v.push(json!({ "store": case["store"], "calm": case["calm"], "track": Value::Null }));
            let tc: tracklevel::TrackCase = serde_json::from_value(track.clone()).expect("track case");
            for t in tracklevel::shrink_track_case(&tc) {
                v.push(json!({ "store": case["store"], "calm": case["calm"], "track": serde_json::to_value(&t).unwrap() }));
            }
        }
        v.extend(
            shrink_store_case(&sc)
                .into_iter()
                .map(|c| json!({ "store": serde_json::to_value(&c).unwrap(), "calm": case["calm"], "track": track })),
        );
        v
    }

    fn rule(&self) -> String {
        match self.prop {
            "C09" => "one evaluation = one generated operation history (1..60 ops quick, ..200 thorough; ids from an alphabet of 4/6/12, classes 0..2, 1..5 shards) executed on the real TrackStore under one seeded schedule and compared op by op with the sequential map model (return value + full contents + shard placement after every op; un-awaited merges handled as a candidate set of linearisations). distinct = distinct interleaving hash of (task, event kind, source line) in global order; non-trivial = at least two operations executed and at least one context switch between caller and workers. The batch ends (quick) / starts (thorough) with the small-scope sub-batch: every history of <=2 / <=3 operations over the fixed 71-operation alphabet of storesim/systematic.rs on 1, 2, 3 shards, each under its own seeded schedule (probe small_scope_enumerated_histories)".into(),
            "C10" => "one evaluation = one generated history of store mutations and distance queries (foreign and owned, 1..4 candidates, both only_baked, drained by all()/iterator/partially/not at all) on the real TrackStore under one seeded schedule; each drained query is compared as a multiset (and its error-stream count) with the sequential reference. distinct = distinct interleaving hash; non-trivial = >=2 ops executed and >=1 context switch. Plus the small-scope sub-batch of storesim/systematic.rs (every history of <=2 quick / <=3 thorough operations over 71 fixed operations, 1..3 shards)".into(),
            _ => "one evaluation = one generated history plus one re-execution per callback-invocation position of a target operation (store level), each under its own seeded schedule; distinct = distinct interleaving hash; non-trivial = >=2 ops and >=1 context switch. Plus the small-scope sub-batch (every history of 1 quick / <=2 thorough operations over the 71 fixed operations of storesim/systematic.rs, each with its fault positions)".into(),
        }
    }

    fn assumptions(&self) -> Vec<String> {
        vec![
            "threads, Mutex/RwLock/Condvar are shuttle's models of std; crossbeam channels are the FIFO model in /verif/shims/crossbeam".into(),
            "callbacks fail by returning Err, never by panicking".into(),
            "the caller does not mutate the store directly while a distance query is outstanding (the executor drains first)".into(),
            "sampling, not proof: a clean batch is evidence only".into(),
        ]
    }

    fn level(&self) -> &'static str {
        if self.prop == "C11" {
            "fault_enumeration"
        } else {
            "exploration"
        }
    }

    fn runs(&self, thorough: bool) -> u64 {
        self.random_runs(thorough) + systematic::total(self.systematic_len(thorough))
    }
}

impl StoreEngine {
    fn random_runs(&self, thorough: bool) -> u64 {
        match (self.prop, thorough) {
            ("C09", false) => 12_000,
            ("C09", true) => 600_000,
            ("C10", false) => 12_000,
            ("C10", true) => 600_000,
            (_, false) => 6_000,
            (_, true) => 150_000,
        }
    }
    /// longest enumerated history (operations after the two-track prefix)
    fn systematic_len(&self, thorough: bool) -> u32 {
        match (self.prop, thorough) {
            ("C11", false) => 1,
            ("C11", true) => 2,
            (_, false) => 2,
            (_, true) => 3,
        }
    }
}
