//! store-sim: the real TrackStore (workers = simulated tasks) driven by a client
//! task, checked operation by operation against the reference model with a
//! candidate-set (linearisation) oracle for un-awaited merges.

use super::model::*;
use super::ops::*;
use super::types::*;
use crate::common::*;
use similari::prelude::ObservationBuilder;
use similari::store::track_distance::{TrackDistanceErr, TrackDistanceOk};
use similari::store::{FutureMergeResponse, TrackStore};
use similari::track::TrackStatus;
use similari::Errors;
use similari_verif_rt as rt;
use std::collections::{BTreeMap, BTreeSet};
use std::sync::atomic::Ordering::SeqCst;
use std::sync::{Arc, Mutex};

type Store = TrackStore<SimAttrs, SimMetric, SimObs, Notif>;

fn clause_property(clause: &str) -> &'static str {
    match clause {
        "ret" | "contents" | "placement" | "stats" => "C09",
        "atomicity" | "merge-history" | "notify" | "owned-merge-restores" => "C11",
        "dist-multiset" | "dist-errs" | "self-pair" | "dist-partial" => "C10",
        _ => "C09",
    }
}

fn ret_name(r: &Ret) -> String {
    match r {
        Ret::Ok => "Ok".into(),
        Ret::OkSrc(_) => "OkSrc".into(),
        Ret::OkNone => "OkNone".into(),
        Ret::NotFound(_) => "NotFound".into(),
        Ret::Same => "Same".into(),
        Ret::Duplicate(_) => "Duplicate".into(),
        Ret::CallbackErr => "CallbackErr".into(),
        Ret::AnyErr => "AnyErr".into(),
        Ret::OtherErr(_) => "OtherErr".into(),
        Ret::Tracks(_) => "Tracks".into(),
        Ret::Statuses(_) => "Statuses".into(),
        Ret::Stats(_) => "Stats".into(),
    }
}

fn map_err(e: &anyhow::Error) -> Ret {
    match e.downcast_ref::<Errors>() {
        Some(Errors::TrackNotFound(id)) => Ret::NotFound(*id),
        Some(Errors::SameTrackCalculation(_)) => Ret::Same,
        Some(Errors::DuplicateTrackId(id)) => Ret::Duplicate(*id),
        _ => {
            let s = format!("{e}");
            if s.contains("injected fault") {
                Ret::CallbackErr
            } else {
                Ret::OtherErr(s)
            }
        }
    }
}

/// model twin of `build_real`
fn build_model(spec: &TrackSpec, cfg: &Cfg, via_builder_only: bool) -> (TrackSnap, u32) {
    let mut t = new_track(spec.created_as.unwrap_or(spec.id), cfg);
    let mut notes = 1;
    let mut f = FaultCtx::suspended();
    for (c, tag, q) in &spec.obs {
        add_observation(&mut t, *c, Some((*tag, *q)), None, cfg, &mut f).unwrap();
        notes += 1;
    }
    if !via_builder_only {
        for u in [
            SimUpd::SetGroup(spec.group),
            SimUpd::SetStatus(spec.status),
            SimUpd::SetPoisonMerge(spec.poison_merge),
        ] {
            add_observation(&mut t, 0, None, Some(&u), cfg, &mut f).unwrap();
            notes += 1;
        }
        for a in &spec.absorbed {
            let other = new_track(*a, cfg);
            let cls: Vec<u64> = t.obs.keys().cloned().collect();
            let _ = merge(&mut t, &other, &cls, true, cfg, &mut f);
        }
    }
    // renamed afterwards: the history keeps the creation id
    t.id = spec.id;
    (t, notes)
}

/// Builds an external track with the store's own builder. Whether creating a
/// track notifies is not part of any property, so the notifications emitted here
/// are measured (returned) and credited to the model instead of being predicted.
fn build_real(store: &Store, env: &Env, notif: &Notif, spec: &TrackSpec, via_builder_only: bool) -> (STrack, BTreeMap<u64, u32>) {
    let before = notif.log.lock().unwrap().clone();
    env.suspended.store(true, SeqCst);
    let mut b = store.new_track(spec.created_as.unwrap_or(spec.id));
    for (c, tag, q) in &spec.obs {
        b = b.observation(
            ObservationBuilder::new(*c)
                .observation_attributes(SimObs { tag: *tag, q: *q })
                .build(),
        );
    }
    let mut t = b.build().expect("suspended build cannot fail");
    if !via_builder_only {
        for u in [
            SimUpd::SetGroup(spec.group),
            SimUpd::SetStatus(spec.status),
            SimUpd::SetPoisonMerge(spec.poison_merge),
        ] {
            t.add_observation(0, None, None, Some(u)).unwrap();
        }
        for a in &spec.absorbed {
            let other = store.new_track(*a).build().expect("suspended build cannot fail");
            let mut cls = t.get_feature_classes();
            cls.sort();
            let _ = t.merge(&other, &cls, true);
        }
    }
    if spec.created_as.is_some() {
        t.set_track_id(spec.id);
    }
    env.suspended.store(false, SeqCst);
    let after = notif.log.lock().unwrap().clone();
    let mut delta = BTreeMap::new();
    for (id, n) in &after {
        let d = n - before.get(id).cloned().unwrap_or(0);
        if d > 0 {
            delta.insert(*id, d);
        }
    }
    (t, delta)
}

fn status_code(s: &anyhow::Result<TrackStatus>) -> u8 {
    match s {
        Ok(TrackStatus::Ready) => 0,
        Ok(TrackStatus::Pending) => 1,
        Ok(TrackStatus::Wasted) => 2,
        Err(_) => 3,
    }
}

struct Query {
    ok: Option<TrackDistanceOk<SimObs>>,
    err: Option<TrackDistanceErr<SimObs>>,
    expects: Vec<DistExpect>,
    owned: bool,
    /// merges issued before the query (seq < issue_seq) precede its scan in every
    /// shard queue, so a delivered result implies they have taken effect
    issue_seq: u64,
    /// false for a query without candidates: no command is queued at all, so draining it
    /// says nothing about the merges issued before it
    commands_sent: bool,
}

#[derive(Default)]
pub struct ClientResult {
    pub violation: Option<Violation>,
    pub ops_done: u64,
    pub probes: BTreeMap<String, u64>,
    pub faults: BTreeMap<String, u64>,
    pub finished: bool,
    /// callback invocations observed per (faultable, blocking) operation index
    pub cb_counts: BTreeMap<usize, i64>,
    /// cross-shard mode: (query ordinal, sorted ok results, error count) of every drained query
    pub dist_log: Vec<(usize, Vec<DistElt>, usize)>,
}

struct Client<'a> {
    prop: &'a str,
    cfg: Cfg,
    env: Arc<Env>,
    notif: Notif,
    store: Store,
    model: Model,
    futs: [Option<(FutureMergeResponse<SimObs>, u64)>; 2],
    qrys: [Option<Query>; 2],
    res: ClientResult,
    stop: bool,
}

fn diff_detail(exp: &BTreeMap<u64, TrackSnap>, act: &BTreeMap<u64, TrackSnap>) -> &'static str {
    for (id, a) in act {
        match exp.get(id) {
            None => return "extra-track",
            Some(e) => {
                if e == a {
                    continue;
                }
                let mut e2 = e.clone();
                e2.history = a.history.clone();
                if &e2 == a {
                    return "history";
                }
                if e.obs != a.obs {
                    return "observations";
                }
                if e.opt_calls != a.opt_calls {
                    return "metric-state";
                }
                return "attributes";
            }
        }
    }
    for id in exp.keys() {
        if !act.contains_key(id) {
            return "missing-track";
        }
    }
    "equal"
}

impl<'a> Client<'a> {
    fn probe(&mut self, k: &str) {
        *self.res.probes.entry(k.to_string()).or_insert(0) += 1;
    }

    /// A clause failed. Own property => violation; foreign => note and (optionally) stop.
    fn fail(&mut self, clause: &str, op: &str, detail: &str, msg: String, stop_if_foreign: bool) -> bool {
        let mut p = clause_property(clause);
        // a store whose contents are wrong after a failed operation is also not a
        // faithful map: C09 reports these too (C11 owns the atomicity wording)
        if self.prop == "C09" && matches!(clause, "atomicity" | "owned-merge-restores" | "merge-history") {
            p = "C09";
        }
        // ... and a store whose contents match no legal outcome right after an update operation
        // has seen an update that neither succeeded completely nor left the track as it was:
        // C11 reports these as well (C09 owns the map wording)
        if self.prop == "C11"
            && clause == "contents"
            && matches!(op, "add" | "merge_owned" | "merge_external" | "merge_external_noblock" | "future_get" | "fetch_tracks")
        {
            p = "C11";
        }
        if p == self.prop {
            if self.res.violation.is_none() {
                self.res.violation = Some(Violation::new(p, clause, op, detail, msg));
            }
            self.stop = true;
            true
        } else {
            self.probe(&format!("foreign_clause_{p}_{clause}"));
            if stop_if_foreign {
                self.stop = true;
            }
            false
        }
    }

    fn live_seqs(&self) -> BTreeSet<u64> {
        self.futs.iter().flatten().map(|(_, s)| *s).collect()
    }

    /// apply an operation to every candidate state (after letting pending merges take
    /// effect: any FIFO prefix, at least those `forced`), keep candidates whose
    /// expected return value accepts the actual one.
    fn step_model(
        &mut self,
        op: &str,
        actual: &Ret,
        forced: &dyn Fn(&Pending) -> bool,
        f: &dyn Fn(&mut Cand, &Cfg) -> Ret,
    ) {
        let cfg = self.cfg.clone();
        if std::env::var("SIM_DUMP").is_ok() {
            eprintln!("store op {op}: actual {:?}; fired so far {}", actual, self.env.fired.load(SeqCst));
        }
        let mut all: Vec<(Cand, Ret)> = vec![];
        for mut c in self.model.expand(forced) {
            let r = f(&mut c, &cfg);
            all.push((c, r));
        }
        let keep: Vec<Cand> = all
            .iter()
            .filter(|(_, r)| r.accepts(actual))
            .map(|(c, _)| c.clone())
            .collect();
        if keep.is_empty() {
            let exp: Vec<String> = {
                let mut v: Vec<String> = all.iter().map(|(_, r)| ret_name(r)).collect();
                v.sort();
                v.dedup();
                v
            };
            let detail = format!("expected={},got={}", exp.join("|"), ret_name(actual));
            let msg = format!(
                "{op}: return value {:?} not allowed by the model; model allows {:?}",
                actual,
                all.iter().map(|(_, r)| r.clone()).collect::<Vec<_>>()
            );
            self.fail("ret", op, &detail, msg, false);
            // continue with the model's own view (unfiltered)
            self.model.cands = all.into_iter().map(|(c, _)| c).collect();
        } else {
            self.model.cands = keep;
        }
        self.model.prune();
    }

    fn barrier_if_unresolved(&mut self) {
        if self.model.unresolved() > 0 {
            self.probe("implicit_barrier");
            let r = self.store.lookup(SimLookup::All);
            let act = statuses(r);
            self.step_model("lookup", &act, &|_| true, &|c, _| {
                Ret::Statuses(c.tracks.values().map(|t| (t.id, t.status)).collect())
            });
        }
    }

    fn drain_open_queries(&mut self) {
        for slot in 0..self.qrys.len() {
            if self.qrys[slot].is_some() {
                self.probe("implicit_drain");
                self.do_drain(slot, &Drain::All, &Drain::All);
            }
        }
    }

    fn real_snapshot(&mut self, op: &str) -> Option<BTreeMap<u64, TrackSnap>> {
        let mut m = BTreeMap::new();
        let mut misplaced = None;
        for s in 0..self.cfg.shards {
            let g = self.store.get_store(s);
            for (id, t) in g.iter() {
                if t.get_track_id() != *id {
                    misplaced = Some(*id);
                }
                m.insert(*id, snap(t, &self.notif));
            }
        }
        // every stored track must be found where the store itself looks for its id
        for id in m.keys() {
            if !self.store.get_store(*id as usize).contains_key(id) {
                misplaced = Some(*id);
            }
        }
        if let Some(id) = misplaced {
            self.fail(
                "placement",
                op,
                "wrong-shard",
                format!("track {id} stored in a shard other than id mod shards (or under a wrong key)"),
                true,
            );
            return None;
        }
        Some(m)
    }

    fn check_contents(&mut self, op: &str, fault_fired: bool, actual_ret_err: bool) {
        let Some(act) = self.real_snapshot(op) else { return };
        let exp = self.model.expand(&|_| false);
        let keep: Vec<Cand> = exp.iter().filter(|c| c.tracks == act).cloned().collect();
        if keep.is_empty() {
            // pick the closest candidate for the report
            let rank = |d: &str| match d {
                "history" => 1,
                "metric-state" => 2,
                "attributes" => 3,
                "observations" => 4,
                _ => 5,
            };
            let (d, best) = exp
                .iter()
                .map(|c| (diff_detail(&c.tracks, &act), c))
                .min_by_key(|(d, _)| rank(d))
                .unwrap();
            let clause = if d == "history" {
                "merge-history"
            } else if op == "merge_owned" && (fault_fired || actual_ret_err) && (d == "missing-track" || d == "extra-track") {
                "owned-merge-restores"
            } else if fault_fired {
                "atomicity"
            } else {
                "contents"
            };
            let msg = format!(
                "after {op}: store contents differ from every model state ({d}); actual={:?}; closest model state={:?}",
                act, best.tracks
            );
            self.fail(clause, op, d, msg, true);
            return;
        }
        self.model.cands = keep;
        self.model.prune();
        if self.model.pending.is_empty() || self.model.unresolved() == 0 {
            let notes = self.notif.log.lock().unwrap().clone();
            let ok = self.model.cands.iter().any(|c| c.notes == notes);
            if !ok {
                let e = self.model.cands[0].notes.clone();
                let mut d = "count";
                for (id, n) in &notes {
                    let en = e.get(id).cloned().unwrap_or(0);
                    if *n > en {
                        d = "extra-notification";
                    } else if *n < en {
                        d = "missing-notification";
                    }
                }
                let clause = "notify";
                let msg = format!("after {op}: notifications {:?} != model {:?}", notes, e);
                if !self.fail(clause, op, d, msg, false) {
                    // foreign: adopt the actual counts so one mismatch is not reported forever
                    for c in &mut self.model.cands {
                        c.notes = notes.clone();
                    }
                } else {
                    return;
                }
            } else {
                self.model.cands.retain(|c| c.notes == notes);
            }
        }
        let live = self.live_seqs();
        self.model.forget_settled(&live);
    }

    fn do_drain(&mut self, slot: usize, okm: &Drain, errm: &Drain) {
        let Some(mut q) = self.qrys[slot].take() else { return };
        let opname = if q.owned { "owned_track_distances" } else { "foreign_track_distances" };
        let ok = q.ok.take().unwrap();
        let err = q.err.take().unwrap();
        let mut got_ok: Option<Vec<DistElt>> = None;
        let mut partial_ok: Option<Vec<DistElt>> = None;
        let conv = |r: similari::track::ObservationMetricOk<SimObs>| -> DistElt {
            (
                r.from,
                r.to,
                r.attribute_metric.map(|x| x.to_bits()).unwrap_or(u32::MAX),
                r.feature_distance.map(|x| x.to_bits()).unwrap_or(u32::MAX),
            )
        };
        match okm {
            Drain::All => got_ok = Some(ok.all().into_iter().map(conv).collect()),
            Drain::Iter => got_ok = Some(ok.into_iter().map(conv).collect()),
            Drain::Partial(k) => {
                partial_ok = Some(ok.into_iter().take(*k).map(conv).collect());
                *self.res.faults.entry("cancel-query-partial".into()).or_insert(0) += 1;
            }
            Drain::Drop => {
                drop(ok);
                *self.res.faults.entry("cancel-query-dropped".into()).or_insert(0) += 1;
            }
        }
        let mut got_err: Option<usize> = None;
        match errm {
            Drain::All => got_err = Some(err.all().len()),
            Drain::Iter => got_err = Some(err.into_iter().count()),
            Drain::Partial(k) => {
                let _ = err.into_iter().take(*k).count();
            }
            Drain::Drop => drop(err),
        }
        if self.cfg.group_hook {
            // cross-shard differential: results are recorded, not compared with the model
            let mut g = got_ok.unwrap_or_default();
            g.sort();
            let n = self.res.dist_log.len();
            self.res.dist_log.push((n, g, got_err.unwrap_or(0)));
            return;
        }
        if (got_ok.is_some() || got_err.is_some()) && q.commands_sent {
            let iseq = q.issue_seq;
            self.model.cands = self.model.expand(&|p| p.seq < iseq);
            self.model.prune();
        }
        if let Some(mut g) = got_ok {
            g.sort();
            if g.iter().any(|e| e.0 == e.1) {
                self.fail("self-pair", opname, "from==to", format!("result pairs a track with itself: {:?}", g), false);
                return;
            }
            let m: Vec<&DistExpect> = q.expects.iter().filter(|e| e.ok == g).collect();
            if m.is_empty() {
                let e0 = &q.expects[0];
                let d = if g.len() < e0.ok.len() {
                    "too-few"
                } else if g.len() > e0.ok.len() {
                    "too-many"
                } else {
                    "different"
                };
                self.fail(
                    "dist-multiset",
                    opname,
                    d,
                    format!("distance results {:?} != expected {:?}", g, e0.ok),
                    false,
                );
                return;
            }
            if let Some(n) = got_err {
                if !m.iter().any(|e| e.errs == n) {
                    self.fail(
                        "dist-errs",
                        opname,
                        "count",
                        format!("error stream has {n} entries, expected {}", m[0].errs),
                        false,
                    );
                    return;
                }
            }
            if !g.is_empty() {
                self.probe("dist_nonempty_result");
            }
        } else if let Some(n) = got_err {
            if !q.expects.iter().any(|e| e.errs == n) {
                self.fail(
                    "dist-errs",
                    opname,
                    "count",
                    format!("error stream has {n} entries, expected {}", q.expects[0].errs),
                    false,
                );
                return;
            }
        }
        if let Some(p) = partial_ok {
            // every element received must be an element of the expected multiset
            let fits = q.expects.iter().any(|e| {
                let mut pool = e.ok.clone();
                p.iter().all(|x| {
                    if let Some(i) = pool.iter().position(|y| y == x) {
                        pool.swap_remove(i);
                        true
                    } else {
                        false
                    }
                })
            });
            if !fits {
                self.fail(
                    "dist-partial",
                    opname,
                    "not-subset",
                    format!("partially drained results {:?} not within expected {:?}", p, q.expects[0].ok),
                    false,
                );
            }
        }
    }

    fn step(&mut self, i: usize, op: &Op) {
        let kind = op.kind();
        let fired0 = self.env.fired.load(SeqCst);
        let mut actual_err = false;
        // caller-side precondition of distance queries: no direct mutation while a
        // query is outstanding
        let direct_mutation = matches!(
            op,
            Op::AddTrack(_) | Op::NewTrack(_) | Op::Add { .. } | Op::Fetch(_) | Op::MergeOwned { .. } | Op::Clear
                | Op::MergeExt { .. } | Op::OwnedIssue { .. } | Op::ForeignIssue { .. }
        );
        if direct_mutation {
            self.drain_open_queries();
        }
        match op {
            Op::AddTrack(spec) | Op::NewTrack(spec) => {
                let builder_only = matches!(op, Op::NewTrack(_));
                let (t, notes) = build_real(&self.store, &self.env, &self.notif, spec, builder_only);
                let (mt, _) = build_model(spec, &self.cfg, builder_only);
                for c in &mut self.model.cands {
                    for (id, n) in &notes {
                        c.note(*id, *n);
                    }
                }
                let r = match self.store.add_track(t) {
                    Ok(_) => Ret::Ok,
                    Err(e) => map_err(&e),
                };
                actual_err = !r.is_ok();
                self.step_model(kind, &r, &|_| false, &move |c, _| {
                    if c.tracks.contains_key(&mt.id) {
                        Ret::Duplicate(mt.id)
                    } else {
                        c.tracks.insert(mt.id, mt.clone());
                        Ret::Ok
                    }
                });
            }
            Op::Add { id, class, obs, upd, fail_nth } => {
                if fail_nth.is_some() {
                    self.barrier_if_unresolved();
                }
                // no un-awaited merge can be running in a worker during this operation,
                // so a fault that fires during it belongs to it
                let quiet = self.model.unresolved() == 0;
                let fired_base = self.env.fired.load(SeqCst);
                self.env.reset_counter();
                if let Some(n) = fail_nth {
                    self.env.arm(*n);
                }
                let r = match self.store.add(
                    *id,
                    *class,
                    obs.map(|(tag, q)| SimObs { tag, q }),
                    None,
                    upd.clone(),
                ) {
                    Ok(()) => Ret::Ok,
                    Err(e) => map_err(&e),
                };
                let n_cb = self.env.disarm();
                self.res.cb_counts.insert(i, n_cb);
                actual_err = !r.is_ok();
                let (id, class, obs, upd, fail_nth) = (*id, *class, *obs, upd.clone(), *fail_nth);
                let fired_now = self.env.fired.load(SeqCst) > fired_base;
                let observed_notes = self.notif.log.lock().unwrap().get(&id).cloned().unwrap_or(0);
                self.step_model(kind, &r, &|_| false, &move |c, cfg| {
                    let _ = fail_nth;
                    let mut f = if quiet { FaultCtx::observed(fired_now) } else { FaultCtx::none() };
                    if let Some(t) = c.tracks.get_mut(&id) {
                        match add_observation(t, class, obs, upd.as_ref(), cfg, &mut f) {
                            Ok(n) => {
                                c.note(id, n);
                                Ret::Ok
                            }
                            Err(()) => Ret::CallbackErr,
                        }
                    } else {
                        // "creates a missing track exactly as building it externally
                        // and inserting it would"; how many notifications the creation
                        // itself emits is unspecified: adopt the observed count
                        let mut t = new_track(id, cfg);
                        c.notes.insert(id, observed_notes);
                        match add_observation(&mut t, class, obs, upd.as_ref(), cfg, &mut f) {
                            Ok(_) => {
                                c.tracks.insert(id, t);
                                Ret::Ok
                            }
                            Err(()) => Ret::CallbackErr,
                        }
                    }
                });
            }
            Op::Fetch(ids) => {
                let got = self.store.fetch_tracks(ids);
                let actual: Vec<TrackSnap> = got.iter().map(|t| snap(t, &self.notif)).collect();
                // fetch_tracks takes the ids one after another, each under its shard
                // lock: workers may apply pending merges between two removals, so the
                // model steps through the ids and lets merges land in between
                let mut cur: Vec<(Cand, Vec<TrackSnap>)> = self.model.cands.iter().map(|c| (c.clone(), vec![])).collect();
                for id in ids {
                    let mut next: Vec<(Cand, Vec<TrackSnap>)> = vec![];
                    for (c, acc) in &cur {
                        for mut c2 in self.model.expand_one(c, &|_| false) {
                            let mut a2 = acc.clone();
                            if let Some(t) = c2.tracks.remove(id) {
                                a2.push(t);
                            }
                            if !next.iter().any(|(x, y)| x == &c2 && y == &a2) {
                                next.push((c2, a2));
                            }
                        }
                    }
                    cur = next;
                }
                let keep: Vec<Cand> = cur.iter().filter(|(_, a)| a == &actual).map(|(c, _)| c.clone()).collect();
                if keep.is_empty() {
                    let msg = format!(
                        "fetch_tracks({:?}) returned {:?}; the model allows {:?}",
                        ids,
                        actual,
                        cur.iter().map(|(_, a)| a.clone()).collect::<Vec<_>>()
                    );
                    self.fail("ret", kind, "fetched-tracks-differ", msg, false);
                    self.model.cands = cur.into_iter().map(|(c, _)| c).collect();
                } else {
                    self.model.cands = keep;
                }
                self.model.prune();
            }
            Op::MergeOwned { dest, src, classes, remove, hist, fail_nth } => {
                self.barrier_if_unresolved();
                let quiet = self.model.unresolved() == 0;
                let fired_base = self.env.fired.load(SeqCst);
                self.env.reset_counter();
                if let Some(n) = fail_nth {
                    self.env.arm(*n);
                }
                let r = match self.store.merge_owned(*dest, *src, classes.as_deref(), *remove, *hist) {
                    Ok(Some(t)) => Ret::OkSrc(snap(&t, &self.notif)),
                    Ok(None) => Ret::OkNone,
                    Err(e) => map_err(&e),
                };
                let n_cb = self.env.disarm();
                self.res.cb_counts.insert(i, n_cb);
                actual_err = !r.is_ok();
                let (dest, src, classes, remove, hist, fail_nth) =
                    (*dest, *src, classes.clone(), *remove, *hist, *fail_nth);
                let fired_now = self.env.fired.load(SeqCst) > fired_base;
                self.step_model(kind, &r, &|_| true, &move |c, cfg| {
                    let Some(s) = c.tracks.get(&src).cloned() else {
                        return Ret::NotFound(src);
                    };
                    if dest == src {
                        return Ret::AnyErr;
                    }
                    let _ = fail_nth;
                    let mut f = if quiet { FaultCtx::observed(fired_now) } else { FaultCtx::none() };
                    c.tracks.remove(&src);
                    let r = store_merge(c, dest, &s, &classes, hist, cfg, &mut f);
                    match r {
                        Ret::Ok => {
                            if remove {
                                Ret::OkSrc(s)
                            } else {
                                c.tracks.insert(src, s);
                                Ret::OkNone
                            }
                        }
                        other => {
                            c.tracks.insert(src, s);
                            other
                        }
                    }
                });
            }
            Op::MergeExt { dest, src, classes, hist, fail_nth } => {
                if fail_nth.is_some() {
                    self.barrier_if_unresolved();
                }
                let quiet = self.model.unresolved() == 0;
                let fired_base = self.env.fired.load(SeqCst);
                let (t, notes) = build_real(&self.store, &self.env, &self.notif, src, false);
                let (mt, _) = build_model(src, &self.cfg, false);
                for c in &mut self.model.cands {
                    for (id, n) in &notes {
                        c.note(*id, *n);
                    }
                }
                self.env.reset_counter();
                if let Some(n) = fail_nth {
                    self.env.arm(*n);
                }
                let r = match self.store.merge_external(*dest, &t, classes.as_deref(), *hist) {
                    Ok(()) => Ret::Ok,
                    Err(e) => map_err(&e),
                };
                let n_cb = self.env.disarm();
                self.res.cb_counts.insert(i, n_cb);
                actual_err = !r.is_ok();
                let shard = self.model.shard_of(*dest);
                let (dest, classes, hist, fail_nth) = (*dest, classes.clone(), *hist, *fail_nth);
                let fired_now = self.env.fired.load(SeqCst) > fired_base;
                self.step_model(kind, &r, &move |p| p.shard == shard, &move |c, cfg| {
                    let _ = fail_nth;
                    let mut f = if quiet { FaultCtx::observed(fired_now) } else { FaultCtx::none() };
                    store_merge(c, dest, &mt, &classes, hist, cfg, &mut f)
                });
            }
            Op::MergeNoblock { slot, dest, src, classes, hist } => {
                if self.futs[*slot].is_some() {
                    return;
                }
                let (t, notes) = build_real(&self.store, &self.env, &self.notif, src, false);
                let (mt, _) = build_model(src, &self.cfg, false);
                for c in &mut self.model.cands {
                    for (id, n) in &notes {
                        c.note(*id, *n);
                    }
                }
                match self.store.merge_external_noblock(*dest, t, classes.as_deref(), *hist) {
                    Ok(f) => {
                        let seq = self.model.next_seq;
                        self.model.next_seq += 1;
                        self.model.pending.push(Pending {
                            seq,
                            shard: self.model.shard_of(*dest),
                            dest: *dest,
                            src: mt,
                            classes: classes.clone(),
                            hist: *hist,
                        });
                        self.futs[*slot] = Some((f, seq));
                        self.probe("noblock_issued");
                    }
                    Err(e) => {
                        self.fail("ret", kind, "issue-failed", format!("noblock merge could not be issued: {e}"), true);
                    }
                }
            }
            Op::FutGet(slot) => {
                let Some((f, seq)) = self.futs[*slot].take() else { return };
                if i % 2 == 1 {
                    // polling consumer: wait for is_ready() (yielding in between), then get()
                    rt::probe::hit("future_polled_until_ready");
                    while !f.is_ready() {
                        rt::thread::yield_now();
                    }
                }
                let r = match f.get() {
                    Ok(()) => Ret::Ok,
                    Err(e) => map_err(&e),
                };
                drop(f);
                actual_err = !r.is_ok();
                let shard = self.model.pending.iter().find(|p| p.seq == seq).map(|p| p.shard);
                if let Some(shard) = shard {
                    let cands = self.model.expand(&|p| p.shard == shard && p.seq <= seq);
                    let keep: Vec<Cand> = cands
                        .iter()
                        .filter(|c| c.applied.get(&seq).map(|e| e.accepts(&r)).unwrap_or(false))
                        .cloned()
                        .collect();
                    if keep.is_empty() {
                        let exp: Vec<String> = {
                            let mut v: Vec<String> =
                                cands.iter().filter_map(|c| c.applied.get(&seq)).map(ret_name).collect();
                            v.sort();
                            v.dedup();
                            v
                        };
                        self.fail(
                            "ret",
                            kind,
                            &format!("expected={},got={}", exp.join("|"), ret_name(&r)),
                            format!("future.get() returned {:?}, model says {:?}", r, exp),
                            false,
                        );
                        self.model.cands = cands;
                    } else {
                        self.model.cands = keep;
                    }
                    self.model.forget(seq);
                }
            }
            Op::FutReady(slot) => {
                let Some((f, seq)) = self.futs[*slot].as_ref() else { return };
                let seq = *seq;
                if f.is_ready() {
                    self.probe("future_ready_true");
                    if let Some(shard) = self.model.pending.iter().find(|p| p.seq == seq).map(|p| p.shard) {
                        self.model.cands = self.model.expand(&|p| p.shard == shard && p.seq <= seq);
                        self.model.prune();
                    }
                } else {
                    self.probe("future_ready_false");
                }
            }
            Op::FutDrop(slot) => {
                if let Some((f, _)) = self.futs[*slot].take() {
                    drop(f);
                    *self.res.faults.entry("cancel-future-dropped".into()).or_insert(0) += 1;
                }
            }
            Op::Lookup(q) => {
                let r = statuses(self.store.lookup(q.clone()));
                let q = q.clone();
                self.step_model(kind, &r, &|_| true, &move |c, _| {
                    Ret::Statuses(
                        c.tracks
                            .values()
                            .filter(|t| match &q {
                                SimLookup::All => true,
                                SimLookup::GroupIs(g) => t.group == *g,
                                SimLookup::CounterAtLeast(n) => t.counter >= *n,
                                SimLookup::HistoryLonger(n) => t.history.len() > *n,
                                SimLookup::HasClass(k) => t.obs.contains_key(k),
                            })
                            .map(|t| (t.id, t.status))
                            .collect(),
                    )
                });
            }
            Op::ParLookup(qs) => {
                // readers on several threads at once; each answer must be the sequential one
                rt::probe::hit("concurrent_lookups");
                // rt::thread::scope is the harness' own implementation (shuttle 0.9.3's wakes a main
                // task that blocks inside the scope spuriously); using it here keeps it exercised
                let store = &self.store;
                let results: Vec<Ret> = rt::thread::scope(|s| {
                    let hs: Vec<_> = qs
                        .iter()
                        .skip(1)
                        .map(|q| {
                            let q = q.clone();
                            s.spawn(move || statuses(store.lookup(q)))
                        })
                        .collect();
                    let mut v = vec![statuses(store.lookup(qs[0].clone()))];
                    for h in hs {
                        v.push(h.join().unwrap());
                    }
                    v
                });
                for (q, r) in qs.iter().zip(results.iter()) {
                    let q = q.clone();
                    self.step_model("lookup", r, &|_| true, &move |c, _| {
                        Ret::Statuses(
                            c.tracks
                                .values()
                                .filter(|t| match &q {
                                    SimLookup::All => true,
                                    SimLookup::GroupIs(g) => t.group == *g,
                                    SimLookup::CounterAtLeast(n) => t.counter >= *n,
                                    SimLookup::HistoryLonger(n) => t.history.len() > *n,
                                    SimLookup::HasClass(k) => t.obs.contains_key(k),
                                })
                                .map(|t| (t.id, t.status))
                                .collect(),
                        )
                    });
                }
            }
            Op::FindUsable => {
                let r = statuses(self.store.find_usable());
                self.step_model(kind, &r, &|_| true, &|c, _| {
                    Ret::Statuses(
                        c.tracks
                            .values()
                            .filter(|t| t.status != 1)
                            .map(|t| (t.id, t.status))
                            .collect(),
                    )
                });
            }
            Op::Clear => {
                self.store.clear();
                self.step_model(kind, &Ret::Ok, &|_| false, &|c, _| {
                    c.tracks.clear();
                    Ret::Ok
                });
            }
            Op::Stats => {
                // "per-shard counts sum to the number of stored tracks", and each count is
                // what that shard holds right now; HOW ids map to shards is read off the
                // store (get_store), not assumed
                let stats = self.store.shard_stats();
                let held: Vec<usize> = (0..self.cfg.shards).map(|s| self.store.get_store(s).len()).collect();
                if stats != held {
                    self.fail("stats", kind, "per-shard", format!("shard_stats {:?}, shards hold {:?}", stats, held), false);
                }
                let r = Ret::Stats(vec![stats.iter().sum()]);
                self.step_model(kind, &r, &|_| false, &|c, _| Ret::Stats(vec![c.tracks.len()]));
            }
            Op::ForeignIssue { slot, cands, class, only_baked } => {
                if self.qrys[*slot].is_some() {
                    return;
                }
                let mut real = vec![];
                let mut ms = vec![];
                for s in cands {
                    let (rt_, notes) = build_real(&self.store, &self.env, &self.notif, s, false);
                    real.push(rt_);
                    let (mt, _) = build_model(s, &self.cfg, false);
                    for c in &mut self.model.cands {
                        for (id, n) in &notes {
                            c.note(*id, *n);
                        }
                    }
                    ms.push(mt);
                }
                // queue order: every earlier merge on every shard precedes the scan,
                // so the expectation is computed on the states with all of them
                // applied; the model's own candidates are only advanced when a
                // result has actually been delivered (see do_drain)
                let at_scan = self.model.expand(&|_| true);
                let mut expects: Vec<DistExpect> = vec![];
                for c in &at_scan {
                    let e = expected_distances(&c.tracks, &ms, *class, *only_baked, &self.cfg);
                    if !expects.iter().any(|x| x.ok == e.ok && x.errs == e.errs) {
                        expects.push(e);
                    }
                }
                let (ok, err) = self.store.foreign_track_distances(real, *class, *only_baked);
                self.qrys[*slot] = Some(Query {
                    ok: Some(ok),
                    err: Some(err),
                    expects,
                    owned: false,
                    commands_sent: !cands.is_empty(),
                    issue_seq: self.model.next_seq,
                });
            }
            Op::OwnedIssue { slot, ids, class, only_baked } => {
                if self.qrys[*slot].is_some() {
                    return;
                }
                self.barrier_if_unresolved();
                self.model.cands = self.model.expand(&|_| true);
                self.model.prune();
                let mut expects: Vec<DistExpect> = vec![];
                for c in &self.model.cands {
                    let mut seen = BTreeSet::new();
                    let ms: Vec<TrackSnap> = ids
                        .iter()
                        .filter(|id| seen.insert(**id))
                        .filter_map(|id| c.tracks.get(id).cloned())
                        .collect();
                    let e = expected_distances(&c.tracks, &ms, *class, *only_baked, &self.cfg);
                    if ms.len() >= 2 {
                        rt::probe::hit("owned_query_multi_candidate");
                    }
                    if !expects.iter().any(|x| x.ok == e.ok && x.errs == e.errs) {
                        expects.push(e);
                    }
                }
                let (ok, err) = self.store.owned_track_distances(ids, *class, *only_baked);
                self.qrys[*slot] = Some(Query {
                    ok: Some(ok),
                    err: Some(err),
                    expects,
                    owned: true,
                    commands_sent: true, // pending merges were awaited above (barrier)
                    issue_seq: self.model.next_seq,
                });
            }
            Op::Drain { slot, ok, err } => {
                self.do_drain(*slot, ok, err);
            }
        }
        if self.stop {
            return;
        }
        let fired = self.env.fired.load(SeqCst) > fired0;
        if fired {
            *self.res.faults.entry("callback-error".into()).or_insert(0) += 1;
        }
        // contents are compared after every operation; while a query is outstanding
        // workers only read, so this is safe then too
        self.check_contents(kind, fired, actual_err);
    }
}

fn statuses(v: Vec<(u64, anyhow::Result<TrackStatus>)>) -> Ret {
    let mut s: Vec<(u64, u8)> = v.iter().map(|(id, st)| (*id, status_code(st))).collect();
    s.sort();
    Ret::Statuses(s)
}

pub fn client_main(case: &StoreCase, prop: &str) -> ClientResult {
    let env = Env::new(case.cfg.cap, case.cfg.none_mod, case.cfg.post_mod);
    env.group_hook.store(case.cfg.group_hook, SeqCst);
    let notif = Notif::default();
    let store: Store = TrackStore::new(
        SimMetric {
            seen: Default::default(),
            env: env.clone(),
        },
        SimAttrs::new(env.clone(), case.cfg.default_status),
        notif.clone(),
        case.cfg.shards,
    );
    let mut cl = Client {
        prop,
        cfg: case.cfg.clone(),
        env,
        notif,
        store,
        model: Model::new(case.cfg.clone()),
        futs: [None, None],
        qrys: [None, None],
        res: ClientResult::default(),
        stop: false,
    };
    for (i, op) in case.ops.iter().enumerate() {
        rt::log::record(rt::log::Kind::OpInvoke, i as u32, "op", 0);
        cl.step(i, op);
        rt::log::record(rt::log::Kind::OpReturn, i as u32, "op", 0);
        cl.res.ops_done += 1;
        if cl.stop {
            break;
        }
    }
    // shutdown: abandon whatever is outstanding, then drop the store (joins workers)
    let Client { futs, qrys, store, mut res, .. } = cl;
    drop(qrys);
    drop(futs);
    drop(store);
    res.finished = true;
    res
}

pub fn run_store_case(prop: &'static str, case: &StoreCase, plan: &SchedPlan) -> Outcome {
    let mut out = Outcome::default();
    let shared: Arc<Mutex<Option<ClientResult>>> = Arc::new(Mutex::new(None));
    let s2 = shared.clone();
    let case2 = case.clone();
    let r = run_exec(&mut out, plan, 0, false, case.cfg.shards as u32, move || {
        let res = client_main(&case2, prop);
        *s2.lock().unwrap() = Some(res);
    });
    let cres = shared.lock().unwrap().take();
    if let Some(c) = &cres {
        out.stats.ops += c.ops_done;
        for (k, v) in &c.probes {
            out.stats.probe(k, *v);
        }
        for (k, v) in &c.faults {
            out.stats.fault(k, *v);
        }
        if let Some(v) = &c.violation {
            out.violation = Some(v.clone());
        }
    }
    if out.violation.is_none() {
        if let Some(a) = &r.abort {
            // a panic / deadlock inside the store or its workers
            let mut v = abort_violation(prop, "run", a);
            if prop != "C09" {
                // library panics and deadlocks of the store are C09's business
                // (the map must keep behaving); other store checks only count them
                out.stats.probe("foreign_abort", 1);
                v.property = "C09".into();
                if prop == "C09" {
                    out.violation = Some(v);
                }
            } else {
                out.violation = Some(v);
            }
        }
    }
    out.stats.nontrivial = cres.map(|c| c.ops_done >= 2).unwrap_or(false) && r.context_switches > 0;
    out
}
