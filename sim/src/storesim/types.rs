//! Harness-defined attribute / metric / observation implementations for the
//! store simulation (C09 C10 C11), deliberately non-trivial: compatibility,
//! status, optimisation (sort + truncate + attribute side effect + metric
//! state), selective metric, post-processing; every user callback can fail
//! under control of the fault environment.

use anyhow::{anyhow, Result};
use serde::{Deserialize, Serialize};
use similari::track::notify::ChangeNotifier;
use similari::track::{
    LookupRequest, MetricOutput, MetricQuery, Observation, ObservationAttributes,
    ObservationMetric, ObservationMetricOk, ObservationsDb, Track, TrackAttributes,
    TrackAttributesUpdate, TrackStatus,
};
use std::collections::BTreeMap;
use std::sync::atomic::{AtomicBool, AtomicI64, AtomicU64, Ordering::SeqCst};
use std::sync::{Arc, Mutex};

pub const POISON_MOD: u32 = 100;
pub const POISON_REM: u32 = 99;
pub const NO_ATTR_TAG: u32 = u32::MAX;

pub fn is_poison_tag(tag: u32) -> bool {
    tag != NO_ATTR_TAG && tag % POISON_MOD == POISON_REM
}

#[derive(Debug)]
pub struct Env {
    pub cap: usize,
    pub none_mod: u32,
    pub post_mod: u32,
    pub suspended: AtomicBool,
    pub probe_mode: AtomicBool,
    pub fail_nth: AtomicI64,
    pub counter: AtomicI64,
    pub fired: AtomicU64,
    pub calls: [AtomicU64; 3],
    pub last_metric_state: AtomicU64,
    pub group_hook: AtomicBool,
}

#[derive(Clone, Copy, Debug, PartialEq)]
pub enum Cb {
    Apply = 0,
    Merge = 1,
    Optimize = 2,
}

impl Env {
    pub fn new(cap: usize, none_mod: u32, post_mod: u32) -> Arc<Env> {
        Arc::new(Env {
            cap,
            none_mod,
            post_mod,
            suspended: AtomicBool::new(false),
            probe_mode: AtomicBool::new(false),
            fail_nth: AtomicI64::new(-1),
            counter: AtomicI64::new(0),
            fired: AtomicU64::new(0),
            calls: [AtomicU64::new(0), AtomicU64::new(0), AtomicU64::new(0)],
            last_metric_state: AtomicU64::new(0),
            group_hook: AtomicBool::new(false),
        })
    }
    /// arm "fail the n-th callback invocation from now" (n counted from 0)
    pub fn arm(&self, n: i64) {
        self.counter.store(0, SeqCst);
        self.fail_nth.store(n, SeqCst);
    }
    pub fn disarm(&self) -> i64 {
        self.fail_nth.store(-1, SeqCst);
        self.counter.load(SeqCst)
    }
    pub fn reset_counter(&self) {
        self.counter.store(0, SeqCst);
    }
    pub fn tick(&self, kind: Cb, poison: bool) -> Result<()> {
        if self.suspended.load(SeqCst) || self.probe_mode.load(SeqCst) {
            return Ok(());
        }
        self.calls[kind as usize].fetch_add(1, SeqCst);
        let idx = self.counter.fetch_add(1, SeqCst);
        if self.fail_nth.load(SeqCst) == idx {
            self.fired.fetch_add(1, SeqCst);
            return Err(anyhow!("injected fault: {:?} invocation #{}", kind, idx));
        }
        if poison {
            self.fired.fetch_add(1, SeqCst);
            return Err(anyhow!("injected fault: {:?} poisoned argument", kind));
        }
        Ok(())
    }
}

#[derive(Clone, Debug, PartialEq, Serialize, Deserialize)]
pub struct SimObs {
    pub tag: u32,
    pub q: f32,
}

impl ObservationAttributes for SimObs {
    type MetricObject = f32;
    fn calculate_metric_object(l: &Option<&Self>, r: &Option<&Self>) -> Option<f32> {
        match (l, r) {
            (Some(l), Some(r)) => Some((l.q - r.q).abs()),
            _ => None,
        }
    }
}

#[derive(Clone, Debug)]
pub struct SimAttrs {
    pub group: u8,
    pub counter: u32,
    pub stamps: Vec<u32>,
    /// 0 Ready, 1 Pending, 2 Wasted, 3 baked() returns Err
    pub status: u8,
    pub poison_merge: bool,
    pub env: Arc<Env>,
}

impl SimAttrs {
    pub fn new(env: Arc<Env>, status: u8) -> Self {
        SimAttrs {
            group: 0,
            counter: 0,
            stamps: vec![],
            status,
            poison_merge: false,
            env,
        }
    }
}

#[derive(Clone, Debug, PartialEq, Serialize, Deserialize)]
pub enum SimUpd {
    SetGroup(u8),
    Bump,
    SetStatus(u8),
    Stamp(u32),
    SetPoisonMerge(bool),
    Poison,
}

impl TrackAttributesUpdate<SimAttrs> for SimUpd {
    fn apply(&self, attrs: &mut SimAttrs) -> Result<()> {
        if let Err(e) = attrs.env.tick(Cb::Apply, matches!(self, SimUpd::Poison)) {
            // a failing update has already scribbled on the attributes (user callbacks are
            // not transactional): the track must restore them
            attrs.counter += 100_000;
            attrs.stamps.push(u32::MAX - 1);
            attrs.group = attrs.group.wrapping_add(1);
            attrs.status = 3;
            return Err(e);
        }
        apply_upd_model(
            self,
            &mut attrs.group,
            &mut attrs.counter,
            &mut attrs.stamps,
            &mut attrs.status,
            &mut attrs.poison_merge,
        );
        Ok(())
    }
}

pub fn apply_upd_model(
    u: &SimUpd,
    group: &mut u8,
    counter: &mut u32,
    stamps: &mut Vec<u32>,
    status: &mut u8,
    poison_merge: &mut bool,
) {
    match u {
        SimUpd::SetGroup(g) => *group = *g,
        SimUpd::Bump => *counter += 1,
        SimUpd::SetStatus(s) => *status = *s,
        SimUpd::Stamp(s) => stamps.push(*s),
        SimUpd::SetPoisonMerge(b) => *poison_merge = *b,
        SimUpd::Poison => {}
    }
}

#[derive(Clone, Debug, PartialEq, Serialize, Deserialize)]
pub enum SimLookup {
    All,
    GroupIs(u8),
    CounterAtLeast(u32),
    HistoryLonger(usize),
    HasClass(u64),
}

impl LookupRequest<SimAttrs, SimObs> for SimLookup {
    fn lookup(
        &self,
        attributes: &SimAttrs,
        observations: &ObservationsDb<SimObs>,
        merge_history: &[u64],
    ) -> bool {
        match self {
            SimLookup::All => true,
            SimLookup::GroupIs(g) => attributes.group == *g,
            SimLookup::CounterAtLeast(c) => attributes.counter >= *c,
            SimLookup::HistoryLonger(n) => merge_history.len() > *n,
            SimLookup::HasClass(c) => observations.contains_key(c),
        }
    }
}

pub fn compatible_model(g1: u8, g2: u8) -> bool {
    g1 % 2 == g2 % 2
}

impl TrackAttributes<SimAttrs, SimObs> for SimAttrs {
    type Update = SimUpd;
    type Lookup = SimLookup;

    fn compatible(&self, other: &SimAttrs) -> bool {
        compatible_model(self.group, other.group)
    }

    fn merge(&mut self, other: &SimAttrs) -> Result<()> {
        if let Err(e) = self.env.tick(Cb::Merge, other.poison_merge) {
            // fails half-way: part of the other track's attributes is already mixed in
            self.stamps.extend_from_slice(&other.stamps);
            self.stamps.push(u32::MAX - 2);
            self.counter += 200_000;
            return Err(e);
        }
        self.stamps.extend_from_slice(&other.stamps);
        self.counter += other.counter;
        Ok(())
    }

    fn baked(&self, _observations: &ObservationsDb<SimObs>) -> Result<TrackStatus> {
        match self.status {
            0 => Ok(TrackStatus::Ready),
            1 => Ok(TrackStatus::Pending),
            2 => Ok(TrackStatus::Wasted),
            _ => Err(anyhow!("baked: status error")),
        }
    }
}

#[derive(Clone, Debug)]
pub struct SimMetric {
    /// Metric state: per feature class a digest of the observation list the metric
    /// last optimised for that class. It changes with every successful optimise that
    /// changes a class, is idempotent, and independent of the order in which classes
    /// are optimised — so after any complete operation it is a function of the
    /// track's observations, while a partial rollback leaves it out of step.
    pub seen: BTreeMap<u64, u64>,
    pub env: Arc<Env>,
}

pub fn list_digest(v: &[(u32, u32)]) -> u64 {
    let mut h = 0xcbf29ce484222325u64;
    for (t, q) in v {
        h = (h ^ *t as u64).wrapping_mul(0x100000001b3);
        h = (h ^ *q as u64).wrapping_mul(0x100000001b3);
    }
    h
}

pub fn state_digest(seen: &BTreeMap<u64, u64>) -> u64 {
    let mut h = 0x9e3779b97f4a7c15u64;
    for (c, d) in seen {
        h = (h ^ *c).wrapping_mul(0x100000001b3);
        h = (h ^ *d).wrapping_mul(0x100000001b3);
    }
    h
}

pub fn metric_none_model(env: &Env, ctag: u32, ttag: u32) -> bool {
    env.none_mod != 0 && (ctag.wrapping_add(ttag)) % env.none_mod == 0
}
pub fn post_drop_model(env: &Env, ctag: u32, ttag: u32) -> bool {
    env.post_mod != 0 && (ctag.wrapping_add(2 * ttag)) % env.post_mod == 0
}
pub fn pair_code(ctag: u32, ttag: u32) -> f32 {
    // exactly representable in f32 for tags < 4096
    (ctag * 4096 + ttag) as f32
}

impl ObservationMetric<SimAttrs, SimObs> for SimMetric {
    fn metric(&self, mq: &MetricQuery<'_, SimAttrs, SimObs>) -> MetricOutput<f32> {
        let c = mq.candidate_observation.attr().as_ref();
        let t = mq.track_observation.attr().as_ref();
        match (c, t) {
            (Some(c), Some(t)) => {
                if metric_none_model(&self.env, c.tag, t.tag) {
                    None
                } else {
                    Some((
                        Some((c.q - t.q).abs()),
                        Some(pair_code(c.tag, t.tag)),
                    ))
                }
            }
            _ => Some((None, None)),
        }
    }

    fn optimize(
        &mut self,
        feature_class: u64,
        _merge_history: &[u64],
        attrs: &mut SimAttrs,
        observations: &mut Vec<Observation<SimObs>>,
        _prev_length: usize,
        _is_merge: bool,
    ) -> Result<()> {
        if self.env.probe_mode.load(SeqCst) {
            self.env.last_metric_state.store(state_digest(&self.seen), SeqCst);
            return Ok(());
        }
        let poison = observations
            .iter()
            .any(|o| o.attr().as_ref().map(|a| is_poison_tag(a.tag)).unwrap_or(false));
        // On success the only effect is an idempotent one (sort by quality, keep the
        // best `cap`), so the outcome of an operation does not depend on how often or
        // for which classes the implementation chooses to optimise.
        observations.sort_by(|a, b| {
            let qa = a.attr().as_ref().map(|x| x.q).unwrap_or(-1.0);
            let qb = b.attr().as_ref().map(|x| x.q).unwrap_or(-1.0);
            qb.partial_cmp(&qa).unwrap()
        });
        observations.truncate(self.env.cap);
        if let Err(e) = self.env.tick(Cb::Optimize, poison) {
            // a failing optimise leaves garbage in everything it can reach, so a
            // missing rollback of attributes, observations or metric state shows
            self.seen.insert(u64::MAX - 1, 0xdead);
            self.seen.insert(feature_class, 0xbeef);
            attrs.counter += 1000;
            attrs.stamps.push(u32::MAX);
            observations.reverse();
            observations.push(Observation::new(Some(SimObs { tag: 4_000_000, q: 9.0 }), None));
            return Err(e);
        }
        let snapshot: Vec<(u32, u32)> = observations
            .iter()
            .map(|o| match o.attr().as_ref() {
                Some(x) => (x.tag, x.q.to_bits()),
                None => (NO_ATTR_TAG, 0),
            })
            .collect();
        self.seen.insert(feature_class, list_digest(&snapshot));
        Ok(())
    }

    fn postprocess_distances(
        &self,
        unfiltered: Vec<ObservationMetricOk<SimObs>>,
    ) -> Vec<ObservationMetricOk<SimObs>> {
        let mut v: Vec<ObservationMetricOk<SimObs>> = unfiltered
            .into_iter()
            .filter(|r| match r.feature_distance {
                Some(code) => {
                    let code = code as u32;
                    !post_drop_model(&self.env, code / 4096, code % 4096)
                }
                None => true,
            })
            .collect();
        if self.env.group_hook.load(SeqCst) && v.len() >= 2 {
            // group-dependent hook (cross-shard differential only): the element with the greatest
            // (code, metric) of the group handed to the hook is dropped - whatever a "group" is for
            // the implementation, the overall result must not depend on the shard count
            let key = |r: &ObservationMetricOk<SimObs>| {
                (r.feature_distance.map(|x| x.to_bits()).unwrap_or(0), r.attribute_metric.map(|x| x.to_bits()).unwrap_or(0), r.from, r.to)
            };
            let mx = v.iter().map(key).max().unwrap();
            if let Some(i) = v.iter().position(|r| key(r) == mx) {
                v.remove(i);
            }
        }
        v
    }
}

#[derive(Clone, Debug, Default)]
pub struct Notif {
    pub log: Arc<Mutex<BTreeMap<u64, u32>>>,
    pub muted: Arc<AtomicBool>,
}

impl ChangeNotifier for Notif {
    fn send(&mut self, id: u64) {
        if self.muted.load(SeqCst) {
            return;
        }
        *self.log.lock().unwrap().entry(id).or_insert(0) += 1;
    }
}

pub type STrack = Track<SimAttrs, SimMetric, SimObs, Notif>;

/// Value snapshot of a track: everything the properties talk about (attributes,
/// observations per class in order, merge history, metric state, id).
#[derive(Clone, Debug, PartialEq, Serialize, Deserialize)]
pub struct TrackSnap {
    pub id: u64,
    pub group: u8,
    pub counter: u32,
    pub stamps: Vec<u32>,
    pub status: u8,
    pub poison_merge: bool,
    /// class -> [(tag, q bits)]
    pub obs: BTreeMap<u64, Vec<(u32, u32)>>,
    pub history: Vec<u64>,
    /// digest of the metric state (see SimMetric::seen)
    pub opt_calls: u64,
}

pub fn snap(t: &STrack, notif: &Notif) -> TrackSnap {
    let a = t.get_attributes();
    let mut obs = BTreeMap::new();
    for c in t.get_feature_classes() {
        let v = t
            .get_observations(c)
            .unwrap()
            .iter()
            .map(|o| match o.attr().as_ref() {
                Some(x) => (x.tag, x.q.to_bits()),
                None => (NO_ATTR_TAG, 0),
            })
            .collect();
        obs.insert(c, v);
    }
    // metric state is private to the track; observe it by letting a throw-away
    // clone run `optimize` in probe mode (publishes the state, changes nothing)
    let env = a.env.clone();
    env.probe_mode.store(true, SeqCst);
    let was_muted = notif.muted.swap(true, SeqCst);
    let mut c = t.clone();
    let _ = c.add_observation(
        u64::MAX,
        Some(SimObs {
            tag: 0,
            q: 0.0,
        }),
        None,
        None,
    );
    let opt_calls = env.last_metric_state.load(SeqCst);
    env.probe_mode.store(false, SeqCst);
    notif.muted.store(was_muted, SeqCst);
    TrackSnap {
        id: t.get_track_id(),
        group: a.group,
        counter: a.counter,
        stamps: a.stamps.clone(),
        status: a.status,
        poison_merge: a.poison_merge,
        obs,
        history: t.get_merge_history().clone(),
        opt_calls,
    }
}
