//! C11, track level: exhaustive fault enumeration. For a generated base track and
//! operation, a fault-free execution counts the callback invocations N; the
//! operation is then re-executed from the same snapshot once per k in 0..N with
//! "fail invocation k". No threads are involved here, so it runs outside shuttle.

use super::model::{self, Cfg, FaultCtx};
use super::ops::{gen_spec, TrackSpec};
use super::types::*;
use crate::common::Violation;
use crate::sched::Rng;
use serde::{Deserialize, Serialize};
use similari::prelude::{ObservationBuilder, TrackBuilder};
use std::sync::atomic::Ordering::SeqCst;
use std::sync::Arc;

#[derive(Clone, Debug, PartialEq, Serialize, Deserialize)]
pub struct PreMerge {
    pub src: TrackSpec,
    pub classes: Vec<u64>,
    pub hist: bool,
}

#[derive(Clone, Debug, PartialEq, Serialize, Deserialize)]
pub enum TrackOp {
    AddObs {
        class: u64,
        obs: Option<(u32, f32)>,
        upd: Option<SimUpd>,
    },
    Merge {
        src: TrackSpec,
        src_pre: Vec<PreMerge>,
        classes: Vec<u64>,
        hist: bool,
    },
}

#[derive(Clone, Debug, PartialEq, Serialize, Deserialize)]
pub struct TrackCase {
    pub cfg: Cfg,
    pub dest: TrackSpec,
    pub pre: Vec<PreMerge>,
    pub op: TrackOp,
}

fn gen_class_list(r: &mut Rng) -> Vec<u64> {
    match r.below(8) {
        0 => vec![0],
        1 => vec![1],
        2 => vec![0, 1],
        3 => vec![2, 0, 1],
        4 => vec![1, 2],
        5 => vec![5],       // absent everywhere
        6 => vec![5, 0],    // absent + maybe present
        _ => vec![0, 1, 2],
    }
}

pub fn gen_track_case(seed: u64, faults: bool) -> TrackCase {
    let mut r = Rng::new(seed);
    let cfg = Cfg {
        shards: 1,
        cap: r.range(1, 4) as usize,
        none_mod: 0,
        post_mod: 0,
        default_status: 0,
        group_hook: false,
    };
    let mut dest = gen_spec(&mut r, 50, false, 5);
    dest.id = 1 + r.below(20);
    let gen_pre = |r: &mut Rng, base: u64| -> Vec<PreMerge> {
        let n = r.below(3);
        (0..n)
            .map(|i| {
                let mut s = gen_spec(r, 50, false, 3);
                s.id = base + i;
                PreMerge {
                    src: s,
                    classes: gen_class_list(r),
                    hist: r.chance(2, 3),
                }
            })
            .collect()
    };
    let pre = gen_pre(&mut r, 100);
    let op = if r.chance(2, 5) {
        TrackOp::AddObs {
            class: r.below(3),
            obs: if r.chance(5, 6) {
                Some((
                    if faults && r.chance(1, 8) { 199 } else { r.below(90) as u32 },
                    *r.pick(&[0.1f32, 0.3, 0.5, 0.5, 0.9]),
                ))
            } else {
                None
            },
            upd: match r.below(5) {
                0 => None,
                1 => Some(SimUpd::Bump),
                2 => Some(SimUpd::SetGroup(r.below(4) as u8)),
                3 => Some(SimUpd::Stamp(r.below(100) as u32)),
                _ => {
                    if faults && r.chance(1, 3) {
                        Some(SimUpd::Poison)
                    } else {
                        Some(SimUpd::SetStatus(r.below(3) as u8))
                    }
                }
            },
        }
    } else {
        let mut s = gen_spec(&mut r, 50, faults, 5);
        s.id = 30 + r.below(20);
        TrackOp::Merge {
            src: s,
            src_pre: gen_pre(&mut r, 200),
            classes: gen_class_list(&mut r),
            hist: r.chance(1, 2),
        }
    };
    TrackCase { cfg, dest, pre, op }
}

fn build_real(env: &Arc<Env>, notif: &Notif, cfg: &Cfg, spec: &TrackSpec) -> STrack {
    env.suspended.store(true, SeqCst);
    let mut b = TrackBuilder::new(spec.id)
        .metric(SimMetric {
            seen: Default::default(),
            env: env.clone(),
        })
        .attributes(SimAttrs::new(env.clone(), cfg.default_status))
        .notifier(notif.clone());
    for (c, tag, q) in &spec.obs {
        b = b.observation(
            ObservationBuilder::new(*c)
                .observation_attributes(SimObs { tag: *tag, q: *q })
                .build(),
        );
    }
    let mut t = b.build().unwrap();
    for u in [
        SimUpd::SetGroup(spec.group),
        SimUpd::SetStatus(spec.status),
        SimUpd::SetPoisonMerge(spec.poison_merge),
    ] {
        t.add_observation(0, None, None, Some(u)).unwrap();
    }
    env.suspended.store(false, SeqCst);
    t
}

fn build_model(cfg: &Cfg, spec: &TrackSpec) -> TrackSnap {
    let mut t = model::new_track(spec.id, cfg);
    let mut f = FaultCtx::suspended();
    for (c, tag, q) in &spec.obs {
        model::add_observation(&mut t, *c, Some((*tag, *q)), None, cfg, &mut f).unwrap();
    }
    for u in [
        SimUpd::SetGroup(spec.group),
        SimUpd::SetStatus(spec.status),
        SimUpd::SetPoisonMerge(spec.poison_merge),
    ] {
        model::add_observation(&mut t, 0, None, Some(&u), cfg, &mut f).unwrap();
    }
    t
}

pub struct TrackLevelResult {
    pub violation: Option<Violation>,
    pub positions: u64,
    pub fired: u64,
    pub ops: u64,
}

fn notes_of(n: &Notif, id: u64) -> u32 {
    n.log.lock().unwrap().get(&id).cloned().unwrap_or(0)
}

fn viol(clause: &str, op: &str, detail: &str, msg: String) -> Violation {
    Violation::new("C11", clause, op, detail, msg)
}

fn diff(e: &TrackSnap, a: &TrackSnap) -> &'static str {
    if e == a {
        return "equal";
    }
    let mut e2 = e.clone();
    e2.history = a.history.clone();
    if &e2 == a {
        return "history";
    }
    if e.obs != a.obs {
        return "observations";
    }
    if e.opt_calls != a.opt_calls {
        return "metric-state";
    }
    "attributes"
}

/// apply pre-merges (fault free) to real+model, checking the success-path clauses
fn apply_pre(
    env: &Arc<Env>,
    notif: &Notif,
    cfg: &Cfg,
    real: &mut STrack,
    m: &mut TrackSnap,
    pre: &[PreMerge],
    res: &mut TrackLevelResult,
) {
    for p in pre {
        let s_real = build_real(env, notif, cfg, &p.src);
        let s_m = build_model(cfg, &p.src);
        let before = notes_of(notif, m.id);
        let fired0 = env.fired.load(SeqCst);
        let r = real.merge(&s_real, &p.classes, p.hist);
        let fired = env.fired.load(SeqCst) > fired0;
        let e = model::merge(m, &s_m, &p.classes, p.hist, cfg, &mut FaultCtx::observed(fired));
        res.ops += 1;
        if res.violation.is_some() {
            return;
        }
        if r.is_ok() != e.is_ok() {
            res.violation = Some(viol(
                "ret",
                "track_merge",
                if r.is_ok() { "ok-expected-err" } else { "err-expected-ok" },
                format!("Track::merge (preparation step, fault fired: {fired}) returned {:?}, model {:?}", r.map_err(|e| e.to_string()), e),
            ));
            return;
        }
        let a = snap(real, notif);
        if &a != m {
            let d = diff(m, &a);
            res.violation = Some(viol(
                if d == "history" { "merge-history" } else { "merge-result" },
                "track_merge",
                d,
                format!("after successful merge (classes {:?}, history flag {}): actual {:?} != model {:?}", p.classes, p.hist, a, m),
            ));
            return;
        }
        let after = notes_of(notif, m.id);
        if r.is_ok() && after - before != 1 {
            res.violation = Some(viol(
                "notify",
                "track_merge",
                "success-count",
                format!("successful merge emitted {} notifications", after - before),
            ));
            return;
        }
    }
}

pub fn run_track_case(tc: &TrackCase) -> TrackLevelResult {
    let mut res = TrackLevelResult {
        violation: None,
        positions: 0,
        fired: 0,
        ops: 0,
    };
    let cfg = &tc.cfg;
    let env = Env::new(cfg.cap, 0, 0);
    let notif = Notif::default();
    let mut base_real = build_real(&env, &notif, cfg, &tc.dest);
    let mut base_m = build_model(cfg, &tc.dest);
    apply_pre(&env, &notif, cfg, &mut base_real, &mut base_m, &tc.pre, &mut res);
    if res.violation.is_some() {
        return res;
    }
    // the source of a merge operation (with its own pre-history)
    let src = match &tc.op {
        TrackOp::Merge { src, src_pre, .. } => {
            let mut sr = build_real(&env, &notif, cfg, src);
            let mut sm = build_model(cfg, src);
            // pre-merges into the source use poison-free sources, applied fault free;
            // the source's own poison flag is restored afterwards by construction
            apply_pre(&env, &notif, cfg, &mut sr, &mut sm, src_pre, &mut res);
            if res.violation.is_some() {
                return res;
            }
            Some((sr, sm))
        }
        _ => None,
    };
    let opname = match &tc.op {
        TrackOp::AddObs { .. } => "add_observation",
        TrackOp::Merge { .. } => "track_merge",
    };
    // k = -1: fault-free (apart from poisoned arguments); then every position
    let mut n_positions: i64 = 0;
    let mut k: i64 = -1;
    loop {
        let mut real = base_real.clone();
        let mut m = base_m.clone();
        let before = notes_of(&notif, m.id);
        env.reset_counter();
        let fired0 = env.fired.load(SeqCst);
        if k >= 0 {
            env.arm(k);
        }
        // the real operation first; the model is then told whether a fault fired
        let r = match &tc.op {
            TrackOp::AddObs { class, obs, upd } => real
                .add_observation(*class, obs.map(|(tag, q)| SimObs { tag, q }), None, upd.clone())
                .map_err(|e| e.to_string()),
            TrackOp::Merge { classes, hist, .. } => {
                let (sr, _) = src.as_ref().unwrap();
                real.merge(sr, classes, *hist).map_err(|e| e.to_string())
            }
        };
        let count = env.disarm();
        let fired_now = env.fired.load(SeqCst) > fired0;
        let mut f = FaultCtx::observed(fired_now);
        let e = match &tc.op {
            TrackOp::AddObs { class, obs, upd } => model::add_observation(&mut m, *class, *obs, upd.as_ref(), cfg, &mut f),
            TrackOp::Merge { classes, hist, .. } => {
                let (_, sm) = src.as_ref().unwrap();
                model::merge(&mut m, sm, classes, *hist, cfg, &mut f)
            }
        };
        res.fired += env.fired.load(SeqCst) - fired0;
        res.ops += 1;
        if k == -1 {
            n_positions = count;
        } else {
            res.positions += 1;
        }
        let pos = if k < 0 { "none".to_string() } else { format!("{k}") };
        if r.is_ok() != e.is_ok() {
            res.violation = Some(viol(
                "ret",
                opname,
                if r.is_ok() { "ok-expected-err" } else { "err-expected-ok" },
                format!("{opname} with fault position {pos}: returned {:?}, model {:?}", r, e),
            ));
            return res;
        }
        let a = snap(&real, &notif);
        if a != m {
            let d = diff(&m, &a);
            let clause = if r.is_err() {
                if d == "history" { "merge-history" } else { "atomicity" }
            } else if d == "history" {
                "merge-history"
            } else {
                "merge-result"
            };
            res.violation = Some(viol(
                clause,
                opname,
                d,
                format!(
                    "{opname} with fault position {pos} returned {:?}; track afterwards {:?} != expected {:?}",
                    r, a, m
                ),
            ));
            return res;
        }
        let after = notes_of(&notif, m.id);
        let exp_notes = if r.is_ok() { 1 } else { 0 };
        if after - before != exp_notes {
            res.violation = Some(viol(
                "notify",
                opname,
                if r.is_ok() { "success-count" } else { "failure-notified" },
                format!(
                    "{opname} with fault position {pos} returned {:?} and emitted {} notifications (expected {exp_notes})",
                    r,
                    after - before
                ),
            ));
            return res;
        }
        k += 1;
        if k >= n_positions {
            break;
        }
    }
    res
}

pub fn shrink_track_case(tc: &TrackCase) -> Vec<TrackCase> {
    let mut v = vec![];
    for i in 0..tc.pre.len() {
        let mut c = tc.clone();
        c.pre.remove(i);
        v.push(c);
    }
    if !tc.dest.obs.is_empty() {
        for i in 0..tc.dest.obs.len() {
            let mut c = tc.clone();
            c.dest.obs.remove(i);
            v.push(c);
        }
    }
    if tc.dest.group != 0 || tc.dest.status != 0 {
        let mut c = tc.clone();
        c.dest.group = 0;
        c.dest.status = 0;
        v.push(c);
    }
    match &tc.op {
        TrackOp::AddObs { class, obs, upd } => {
            if upd.is_some() {
                let mut c = tc.clone();
                c.op = TrackOp::AddObs { class: *class, obs: *obs, upd: None };
                v.push(c);
            }
            if obs.is_some() && upd.is_some() {
                let mut c = tc.clone();
                c.op = TrackOp::AddObs { class: *class, obs: None, upd: upd.clone() };
                v.push(c);
            }
        }
        TrackOp::Merge { src, src_pre, classes, hist } => {
            for i in 0..src_pre.len() {
                let mut sp = src_pre.clone();
                sp.remove(i);
                let mut c = tc.clone();
                c.op = TrackOp::Merge { src: src.clone(), src_pre: sp, classes: classes.clone(), hist: *hist };
                v.push(c);
            }
            for i in 0..src.obs.len() {
                let mut s2 = src.clone();
                s2.obs.remove(i);
                let mut c = tc.clone();
                c.op = TrackOp::Merge { src: s2, src_pre: src_pre.clone(), classes: classes.clone(), hist: *hist };
                v.push(c);
            }
            if classes.len() > 1 {
                for i in 0..classes.len() {
                    let mut cl = classes.clone();
                    cl.remove(i);
                    let mut c = tc.clone();
                    c.op = TrackOp::Merge { src: src.clone(), src_pre: src_pre.clone(), classes: cl, hist: *hist };
                    v.push(c);
                }
            }
            if src.group != 0 || src.status != 0 || src.poison_merge {
                let mut s2 = src.clone();
                s2.group = 0;
                s2.status = 0;
                s2.poison_merge = false;
                let mut c = tc.clone();
                c.op = TrackOp::Merge { src: s2, src_pre: src_pre.clone(), classes: classes.clone(), hist: *hist };
                v.push(c);
            }
        }
    }
    if tc.cfg.cap < 4 {
        let mut c = tc.clone();
        c.cfg.cap = 4;
        v.push(c);
    }
    v
}
