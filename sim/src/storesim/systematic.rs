//! Small-scope workload enumeration for the store engines.
//!
//! The random generator samples histories of up to several hundred operations; this
//! module complements it with EVERY history of up to `len` operations over a small, fixed
//! alphabet of concrete operations (ids 0/1 stored, 2 and 5 never stored; feature classes
//! 0/1 present, 3 absent), started from a store holding two tracks. Each enumerated history
//! is still executed under a seeded schedule / hash seed / candidate-id stream like any
//! other case, so this is enumeration of the *workload* dimension only; the schedule
//! dimension stays seeded search.
//!
//! Index layout (mixed radix): shards-variant, then `len` operation digits. Operations
//! that are not legal in the generator's sense at their position (no open handle, caller
//! mutation while a distance query is outstanding, owned query or merge_owned while an
//! un-awaited merge is pending) are replaced by `shard_stats`, which keeps the history
//! valid; the few duplicates this creates are harmless.

use super::model::Cfg;
use super::ops::*;
use super::types::*;

fn spec(id: u64, obs: &[(u64, u32, f32)], group: u8, status: u8, poison_merge: bool) -> TrackSpec {
    TrackSpec { id, group, status, poison_merge, obs: obs.to_vec(), absorbed: vec![], created_as: None }
}

const POISON_TAG: u32 = 3 * POISON_MOD + POISON_REM;

pub fn alphabet() -> Vec<Op> {
    let mut a = vec![];
    // insertion (existing id -> duplicate; 2 -> new)
    a.push(Op::AddTrack(spec(2, &[(0, 11, 0.5)], 0, 0, false)));
    a.push(Op::AddTrack(spec(0, &[(1, 12, 0.7)], 1, 0, false)));
    a.push(Op::NewTrack(spec(2, &[(0, 13, 0.3), (1, 14, 0.9)], 1, 1, false)));
    a.push(Op::AddTrack(spec(2, &[], 0, 0, false)));
    // add observation by id: present / missing, with / without observation and update, poisoned
    for id in [0u64, 2] {
        a.push(Op::Add { id, class: 0, obs: Some((21, 0.5)), upd: None, fail_nth: None });
        a.push(Op::Add { id, class: 1, obs: Some((22, 0.2)), upd: Some(SimUpd::Bump), fail_nth: None });
        a.push(Op::Add { id, class: 0, obs: None, upd: Some(SimUpd::SetGroup(2)), fail_nth: None });
        a.push(Op::Add { id, class: 0, obs: None, upd: None, fail_nth: None });
        a.push(Op::Add { id, class: 0, obs: Some((POISON_TAG, 0.5)), upd: Some(SimUpd::Bump), fail_nth: None });
        a.push(Op::Add { id, class: 1, obs: Some((23, 0.5)), upd: Some(SimUpd::Poison), fail_nth: None });
    }
    a.push(Op::Add { id: 1, class: 0, obs: Some((24, 0.9)), upd: Some(SimUpd::SetStatus(1)), fail_nth: None });
    // fetch
    a.push(Op::Fetch(vec![0]));
    a.push(Op::Fetch(vec![1, 0]));
    a.push(Op::Fetch(vec![2]));
    a.push(Op::Fetch(vec![0, 0]));
    a.push(Op::Fetch(vec![]));
    // owned merges
    for (dest, src) in [(0u64, 1u64), (1, 0), (0, 0), (0, 2), (2, 0)] {
        a.push(Op::MergeOwned { dest, src, classes: None, remove: true, hist: true, fail_nth: None });
        a.push(Op::MergeOwned { dest, src, classes: Some(vec![1]), remove: false, hist: true, fail_nth: None });
    }
    a.push(Op::MergeOwned { dest: 0, src: 1, classes: Some(vec![3]), remove: true, hist: true, fail_nth: None });
    a.push(Op::MergeOwned { dest: 0, src: 1, classes: None, remove: false, hist: false, fail_nth: None });
    a.push(Op::MergeOwned { dest: 1, src: 0, classes: Some(vec![0, 1]), remove: true, hist: false, fail_nth: None });
    // external merges (source id 5 is never stored)
    let ext = spec(5, &[(0, 31, 0.5), (1, 32, 0.6)], 0, 0, false);
    let ext_hist = TrackSpec { absorbed: vec![101], ..spec(5, &[(0, 33, 0.4)], 0, 0, false) };
    let ext_poison = spec(5, &[(0, POISON_TAG, 0.5)], 0, 0, false);
    let ext_pm = spec(5, &[(0, 34, 0.5)], 0, 0, true);
    for dest in [0u64, 2] {
        a.push(Op::MergeExt { dest, src: ext.clone(), classes: None, hist: true, fail_nth: None });
        a.push(Op::MergeExt { dest, src: ext_hist.clone(), classes: Some(vec![0]), hist: true, fail_nth: None });
        a.push(Op::MergeExt { dest, src: ext_poison.clone(), classes: None, hist: true, fail_nth: None });
    }
    a.push(Op::MergeExt { dest: 1, src: ext_pm, classes: None, hist: true, fail_nth: None });
    a.push(Op::MergeExt { dest: 1, src: ext.clone(), classes: Some(vec![3]), hist: true, fail_nth: None });
    a.push(Op::MergeExt { dest: 1, src: TrackSpec { created_as: Some(77), ..ext.clone() }, classes: None, hist: true, fail_nth: None });
    a.push(Op::MergeExt { dest: 0, src: spec(0, &[(0, 35, 0.5)], 0, 0, false), classes: None, hist: false, fail_nth: None });
    // un-awaited merges and their handles
    a.push(Op::MergeNoblock { slot: 0, dest: 0, src: ext.clone(), classes: None, hist: true });
    a.push(Op::MergeNoblock { slot: 0, dest: 2, src: ext.clone(), classes: None, hist: true });
    a.push(Op::MergeNoblock { slot: 0, dest: 1, src: ext_poison, classes: Some(vec![0]), hist: false });
    a.push(Op::MergeNoblock { slot: 1, dest: 0, src: ext_hist, classes: None, hist: true });
    a.push(Op::FutGet(0));
    a.push(Op::FutReady(0));
    a.push(Op::FutDrop(0));
    a.push(Op::FutGet(1));
    // read-only operations
    a.push(Op::Lookup(SimLookup::All));
    a.push(Op::Lookup(SimLookup::HasClass(1)));
    a.push(Op::Lookup(SimLookup::HistoryLonger(0)));
    a.push(Op::Lookup(SimLookup::CounterAtLeast(1)));
    a.push(Op::ParLookup(vec![SimLookup::All, SimLookup::HasClass(1)]));
    a.push(Op::ParLookup(vec![SimLookup::GroupIs(0), SimLookup::All, SimLookup::CounterAtLeast(1)]));
    a.push(Op::FindUsable);
    a.push(Op::Clear);
    a.push(Op::Stats);
    // distance queries
    let cand = spec(7, &[(0, 41, 0.5), (0, 42, 0.6)], 0, 0, false);
    let cand_other_group = spec(8, &[(1, 43, 0.5)], 3, 0, false);
    a.push(Op::ForeignIssue { slot: 0, cands: vec![cand.clone()], class: 0, only_baked: false });
    a.push(Op::ForeignIssue { slot: 0, cands: vec![cand.clone(), cand_other_group.clone()], class: 1, only_baked: true });
    a.push(Op::ForeignIssue { slot: 0, cands: vec![cand_other_group], class: 3, only_baked: false });
    a.push(Op::ForeignIssue { slot: 0, cands: vec![], class: 0, only_baked: false });
    a.push(Op::OwnedIssue { slot: 0, ids: vec![0], class: 0, only_baked: false });
    a.push(Op::OwnedIssue { slot: 0, ids: vec![0, 1], class: 0, only_baked: false });
    a.push(Op::OwnedIssue { slot: 0, ids: vec![1, 2], class: 1, only_baked: true });
    a.push(Op::Drain { slot: 0, ok: Drain::All, err: Drain::All });
    a.push(Op::Drain { slot: 0, ok: Drain::Iter, err: Drain::Drop });
    a.push(Op::Drain { slot: 0, ok: Drain::Partial(1), err: Drain::All });
    a
}

const SHARD_VARIANTS: [(usize, usize); 4] = [(1, 2), (2, 1), (3, 3), (2, 0)];

/// number of systematic cases with exactly `len` operations after the prefix
pub fn count(len: u32) -> u64 {
    SHARD_VARIANTS.len() as u64 * (alphabet().len() as u64).pow(len)
}

/// total for all lengths 1..=max_len
pub fn total(max_len: u32) -> u64 {
    (1..=max_len).map(count).sum()
}

/// `idx` in 0..total(max_len): shorter histories first
pub fn case(mut idx: u64, max_len: u32) -> StoreCase {
    let alpha = alphabet();
    let n = alpha.len() as u64;
    let mut len = 1;
    while len < max_len && idx >= count(len) {
        idx -= count(len);
        len += 1;
    }
    let (shards, cap) = SHARD_VARIANTS[(idx % SHARD_VARIANTS.len() as u64) as usize];
    idx /= SHARD_VARIANTS.len() as u64;
    let cfg = Cfg { shards, cap, none_mod: 3, post_mod: 4, default_status: 0 , group_hook: false};
    let mut ops = vec![
        Op::AddTrack(spec(0, &[(0, 1, 0.5), (0, 2, 0.7)], 0, 0, false)),
        Op::AddTrack(TrackSpec { absorbed: vec![100], ..spec(1, &[(0, 3, 0.2), (1, 4, 0.9)], 0, 1, false) }),
    ];
    // generator-side legality (see ops.rs): handles, outstanding query, pending merges
    let mut fut = [false; 2];
    let mut qry = false;
    let mut qry_sent = false;
    let mut unresolved = 0usize;
    for _ in 0..len {
        let op = alpha[(idx % n) as usize].clone();
        idx /= n;
        let legal = if qry {
            // while a distance query is outstanding the caller only does what the generator allows
            match &op {
                Op::MergeNoblock { slot, .. } => !fut[*slot] && unresolved < 2,
                Op::Lookup(SimLookup::All) | Op::Drain { .. } => true,
                Op::FutReady(s) => fut[*s],
                _ => false,
            }
        } else {
            match &op {
                Op::FutGet(s) | Op::FutReady(s) | Op::FutDrop(s) => fut[*s],
                Op::Drain { .. } => false,
                Op::MergeNoblock { slot, .. } => !fut[*slot] && unresolved < 2,
                Op::MergeOwned { .. } | Op::OwnedIssue { .. } => unresolved == 0,
                _ => true,
            }
        };
        if !legal {
            ops.push(Op::Stats);
            continue;
        }
        match &op {
            Op::MergeNoblock { slot, .. } => {
                fut[*slot] = true;
                unresolved += 1;
            }
            Op::FutGet(s) => {
                fut[*s] = false;
                unresolved = unresolved.saturating_sub(1);
            }
            Op::FutDrop(s) => fut[*s] = false,
            Op::ForeignIssue { cands, .. } => {
                qry = true;
                qry_sent = !cands.is_empty();
            }
            Op::OwnedIssue { .. } => {
                qry = true;
                qry_sent = true;
            }
            Op::Drain { .. } => {
                qry = false;
                // a query without candidates queues nothing: pending merges stay pending
                if qry_sent {
                    unresolved = 0;
                }
            }
            Op::Lookup(_) | Op::ParLookup(_) | Op::FindUsable if !qry => unresolved = 0,
            _ => {}
        }
        ops.push(op);
    }
    if qry {
        ops.push(Op::Drain { slot: 0, ok: Drain::All, err: Drain::All });
    }
    StoreCase { cfg, ops }
}
