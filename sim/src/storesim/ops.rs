//! Operation alphabet of the store simulation and its generator.

use super::model::Cfg;
use super::types::*;
use crate::sched::Rng;
use serde::{Deserialize, Serialize};

#[derive(Clone, Debug, PartialEq, Serialize, Deserialize)]
pub struct TrackSpec {
    pub id: u64,
    pub group: u8,
    pub status: u8,
    pub poison_merge: bool,
    /// (class, tag, q) observations added in order through the store's builder
    pub obs: Vec<(u64, u32, f32)>,
    /// ids of (empty) tracks merged into this one beforehand with history on, so
    /// that the track carries a merge history of its own
    #[serde(default)]
    pub absorbed: Vec<u64>,
    /// the track is created under this id and renamed with `set_track_id` afterwards (what the
    /// trackers do with their candidates); its merge history keeps the id it was created with
    #[serde(default)]
    pub created_as: Option<u64>,
}

#[derive(Clone, Debug, PartialEq, Serialize, Deserialize)]
pub enum Drain {
    All,
    Iter,
    Partial(usize),
    Drop,
}

#[derive(Clone, Debug, PartialEq, Serialize, Deserialize)]
pub enum Op {
    AddTrack(TrackSpec),
    /// build with the store's own builder (new_track) and insert
    NewTrack(TrackSpec),
    Add {
        id: u64,
        class: u64,
        obs: Option<(u32, f32)>,
        upd: Option<SimUpd>,
        /// fail the k-th callback invocation of this operation
        fail_nth: Option<i64>,
    },
    Fetch(Vec<u64>),
    MergeOwned {
        dest: u64,
        src: u64,
        classes: Option<Vec<u64>>,
        remove: bool,
        hist: bool,
        fail_nth: Option<i64>,
    },
    MergeExt {
        dest: u64,
        src: TrackSpec,
        classes: Option<Vec<u64>>,
        hist: bool,
        fail_nth: Option<i64>,
    },
    MergeNoblock {
        slot: usize,
        dest: u64,
        src: TrackSpec,
        classes: Option<Vec<u64>>,
        hist: bool,
    },
    FutGet(usize),
    FutReady(usize),
    FutDrop(usize),
    Lookup(SimLookup),
    /// several lookups at once: the first on the caller's thread, the others on their own
    /// threads sharing `&store` (lookup, shard_stats and clear take `&self`)
    ParLookup(Vec<SimLookup>),
    FindUsable,
    Clear,
    Stats,
    ForeignIssue {
        slot: usize,
        cands: Vec<TrackSpec>,
        class: u64,
        only_baked: bool,
    },
    OwnedIssue {
        slot: usize,
        ids: Vec<u64>,
        class: u64,
        only_baked: bool,
    },
    Drain {
        slot: usize,
        ok: Drain,
        err: Drain,
    },
}

impl Op {
    pub fn kind(&self) -> &'static str {
        match self {
            Op::AddTrack(_) => "add_track",
            Op::NewTrack(_) => "new_track",
            Op::Add { .. } => "add",
            Op::Fetch(_) => "fetch_tracks",
            Op::MergeOwned { .. } => "merge_owned",
            Op::MergeExt { .. } => "merge_external",
            Op::MergeNoblock { .. } => "merge_external_noblock",
            Op::FutGet(_) => "future_get",
            Op::FutReady(_) => "future_is_ready",
            Op::FutDrop(_) => "future_drop",
            Op::Lookup(_) => "lookup",
            Op::ParLookup(_) => "lookup_concurrent",
            Op::FindUsable => "find_usable",
            Op::Clear => "clear",
            Op::Stats => "shard_stats",
            Op::ForeignIssue { .. } => "foreign_track_distances",
            Op::OwnedIssue { .. } => "owned_track_distances",
            Op::Drain { .. } => "drain",
        }
    }
}

#[derive(Clone, Debug, PartialEq, Serialize, Deserialize)]
pub struct StoreCase {
    pub cfg: Cfg,
    pub ops: Vec<Op>,
}

pub struct GenOpts {
    pub max_ops: usize,
    pub ids: u64,
    /// callback faults (poison / fail_nth) allowed
    pub faults: bool,
    /// dropped futures / undrained queries allowed
    pub cancel: bool,
    /// weight profile: 0 = C09 mix, 1 = C10 (distance heavy), 2 = C11 (mutation + faults)
    pub profile: u8,
}

fn gen_tag(r: &mut Rng, faults: bool) -> u32 {
    if faults && r.chance(1, 12) {
        // poison observation: optimise fails whenever it sees it
        r.below(20) as u32 * POISON_MOD + POISON_REM
    } else {
        let t = r.below(3000) as u32;
        if is_poison_tag(t) {
            t + 1
        } else {
            t
        }
    }
}

fn gen_q(r: &mut Rng) -> f32 {
    // few distinct qualities so that equal-quality ties (stable sort) occur
    *r.pick(&[0.1f32, 0.2, 0.3, 0.5, 0.5, 0.7, 0.9])
}

pub fn gen_spec(r: &mut Rng, ids: u64, faults: bool, max_obs: u64) -> TrackSpec {
    let n = r.below(max_obs + 1);
    let mut obs = vec![];
    for _ in 0..n {
        obs.push((r.below(3), gen_tag(r, faults), gen_q(r)));
    }
    TrackSpec {
        id: r.below(ids),
        group: r.below(4) as u8,
        status: *r.pick(&[0u8, 0, 0, 1, 2, 3]),
        poison_merge: faults && r.chance(1, 10),
        obs,
        absorbed: if r.chance(1, 4) { (0..r.range(1, 2)).map(|_| 100 + r.below(50)).collect() } else { vec![] },
        created_as: None,
    }
    .renamed_sometimes()
}

impl TrackSpec {
    /// a fixed function of the spec (no generator randomness): one spec in four is a renamed track
    fn renamed_sometimes(mut self) -> Self {
        if (self.id as usize + self.obs.len() + self.group as usize) % 4 == 3 {
            self.created_as = Some(9000 + (self.id % 1000));
        }
        self
    }
}

fn gen_classes(r: &mut Rng) -> Option<Vec<u64>> {
    match r.below(6) {
        0 | 1 => None,
        2 => Some(vec![r.below(3)]),
        3 => Some(vec![0, 1]),
        4 => Some(vec![2, 0, 1]),
        _ => Some(vec![r.below(3) + 3]), // absent everywhere
    }
}

fn gen_upd(r: &mut Rng, faults: bool) -> Option<SimUpd> {
    match r.below(8) {
        0 | 1 => None,
        2 => Some(SimUpd::SetGroup(r.below(4) as u8)),
        3 => Some(SimUpd::Bump),
        4 => Some(SimUpd::SetStatus(*r.pick(&[0u8, 0, 1, 2, 3]))),
        5 => Some(SimUpd::Stamp(r.below(1000) as u32)),
        6 => Some(SimUpd::SetPoisonMerge(r.chance(1, 2))),
        _ => {
            if faults && r.chance(1, 2) {
                Some(SimUpd::Poison)
            } else {
                Some(SimUpd::Bump)
            }
        }
    }
}

fn gen_drain(r: &mut Rng, cancel: bool) -> Drain {
    match r.below(if cancel { 6 } else { 3 }) {
        0 | 1 => Drain::All,
        2 => Drain::Iter,
        3 => Drain::Partial(r.below(4) as usize),
        4 => Drain::Drop,
        _ => Drain::All,
    }
}

pub fn gen_case(seed: u64, o: &GenOpts) -> StoreCase {
    let mut r = Rng::new(seed);
    let cfg = Cfg {
        shards: r.range(1, 5) as usize,
        cap: r.range(1, 4) as usize,
        none_mod: *r.pick(&[0u32, 3, 5]),
        post_mod: *r.pick(&[0u32, 4, 7]),
        default_status: *r.pick(&[0u8, 0, 1]),
        group_hook: false,
    };
    // a metric may keep NO observation of a class (capacity 0): classes that exist but are
    // empty (own random stream)
    let mut cfg = cfg;
    if Rng::new(seed ^ 0xCA90_0000_0000_0005).chance(1, 8) {
        cfg.cap = 0;
    }
    let n_ops = if r.chance(1, 3) {
        r.range(1, 3) as usize
    } else {
        r.range(1, o.max_ops as i64) as usize
    };
    let ids = o.ids;
    let mut ops = vec![];
    // generator-side bookkeeping of handles
    let mut fut: [bool; 2] = [false; 2];
    let mut qry: [bool; 2] = [false; 2];
    let mut unresolved = 0usize;
    // start from a populated store most of the time
    let prefill = if r.chance(3, 4) { r.below(ids.min(8)) } else { 0 };
    for _ in 0..prefill {
        ops.push(Op::AddTrack(gen_spec(&mut r, ids, false, 3)));
    }
    let fnth = |r: &mut Rng, faults: bool, pending: usize| -> Option<i64> {
        if faults && pending == 0 && r.chance(1, 4) {
            Some(r.below(4) as i64)
        } else {
            None
        }
    };
    while ops.len() < prefill as usize + n_ops {
        let open_q = qry.iter().any(|x| *x);
        let w = r.below(100);
        // while a query is outstanding the caller must not mutate the store directly
        if open_q {
            let slot = qry.iter().position(|x| *x).unwrap();
            match r.below(6) {
                0 if !fut.iter().all(|x| *x) && unresolved < 2 => {
                    let s = fut.iter().position(|x| !*x).unwrap();
                    fut[s] = true;
                    unresolved += 1;
                    ops.push(Op::MergeNoblock {
                        slot: s,
                        dest: r.below(ids),
                        src: gen_spec(&mut r, ids, o.faults, 3),
                        classes: gen_classes(&mut r),
                        hist: r.chance(1, 2),
                    });
                }
                1 => ops.push(Op::Lookup(SimLookup::All)),
                2 if fut.iter().any(|x| *x) => {
                    let s = fut.iter().position(|x| *x).unwrap();
                    ops.push(Op::FutReady(s));
                }
                _ => {
                    qry[slot] = false;
                    ops.push(Op::Drain {
                        slot,
                        ok: gen_drain(&mut r, o.cancel),
                        err: gen_drain(&mut r, o.cancel),
                    });
                    unresolved = 0; // a drained/abandoned query went through every queue
                }
            }
            continue;
        }
        let (w_add, w_merge, w_dist, w_fault_ops) = match o.profile {
            0 => (30, 30, 15, 0),
            1 => (20, 10, 60, 0),
            _ => (30, 50, 5, 0),
        };
        let _ = w_fault_ops;
        if w < w_add {
            match r.below(5) {
                // stored tracks never contain poisoned observations (an operation that
                // brings one in fails and is rolled back), so specs inserted as they are must not either
                0 => ops.push(Op::AddTrack(gen_spec(&mut r, ids, false, 3))),
                1 => ops.push(Op::NewTrack(gen_spec(&mut r, ids, false, 3))),
                2 => {
                    let k = r.range(0, 3);
                    ops.push(Op::Fetch((0..k).map(|_| r.below(ids)).collect()))
                }
                _ => {
                    let obs = if r.chance(5, 6) {
                        Some((gen_tag(&mut r, o.faults), gen_q(&mut r)))
                    } else {
                        None
                    };
                    ops.push(Op::Add {
                        id: r.below(ids),
                        class: r.below(3),
                        obs,
                        upd: gen_upd(&mut r, o.faults),
                        fail_nth: fnth(&mut r, o.faults, unresolved),
                    })
                }
            }
        } else if w < w_add + w_merge {
            match r.below(7) {
                0 | 1 if unresolved == 0 => ops.push(Op::MergeOwned {
                    dest: r.below(ids),
                    src: r.below(ids),
                    classes: gen_classes(&mut r),
                    remove: r.chance(1, 2),
                    hist: r.chance(1, 2),
                    fail_nth: fnth(&mut r, o.faults, unresolved),
                }),
                2 | 3 => ops.push(Op::MergeExt {
                    dest: r.below(ids),
                    src: gen_spec(&mut r, ids + 3, o.faults, 4),
                    classes: gen_classes(&mut r),
                    hist: r.chance(1, 2),
                    fail_nth: fnth(&mut r, o.faults, unresolved),
                }),
                4 | 5 if !fut.iter().all(|x| *x) && unresolved < 2 => {
                    let s = fut.iter().position(|x| !*x).unwrap();
                    fut[s] = true;
                    unresolved += 1;
                    ops.push(Op::MergeNoblock {
                        slot: s,
                        dest: r.below(ids),
                        src: gen_spec(&mut r, ids + 3, o.faults, 4),
                        classes: gen_classes(&mut r),
                        hist: r.chance(1, 2),
                    });
                }
                _ if fut.iter().any(|x| *x) => {
                    let s = if fut[0] && fut[1] {
                        r.below(2) as usize
                    } else {
                        fut.iter().position(|x| *x).unwrap()
                    };
                    match r.below(if o.cancel { 4 } else { 3 }) {
                        0 => ops.push(Op::FutReady(s)),
                        3 => {
                            fut[s] = false;
                            ops.push(Op::FutDrop(s));
                        }
                        _ => {
                            fut[s] = false;
                            unresolved = unresolved.saturating_sub(1);
                            ops.push(Op::FutGet(s));
                        }
                    }
                }
                _ => ops.push(Op::Stats),
            }
        } else if w < w_add + w_merge + w_dist {
            let slot = 0;
            qry[slot] = true;
            if r.chance(1, 2) {
                let k = r.range(1, 4);
                ops.push(Op::ForeignIssue {
                    slot,
                    cands: (0..k).map(|_| gen_spec(&mut r, ids + 4, false, 3)).collect(),
                    class: r.below(3),
                    only_baked: r.chance(1, 2),
                });
            } else if unresolved == 0 {
                let k = r.range(1, 3);
                let mut v: Vec<u64> = (0..k).map(|_| r.below(ids)).collect();
                v.dedup();
                ops.push(Op::OwnedIssue {
                    slot,
                    ids: v,
                    class: r.below(3),
                    only_baked: r.chance(1, 2),
                });
            } else {
                qry[slot] = false;
                ops.push(Op::FindUsable);
                unresolved = 0;
            }
        } else {
            match r.below(10) {
                0..=2 => {
                    let q = match r.below(5) {
                        0 => SimLookup::All,
                        1 => SimLookup::GroupIs(r.below(4) as u8),
                        2 => SimLookup::CounterAtLeast(r.below(4) as u32),
                        3 => SimLookup::HistoryLonger(r.below(3) as usize),
                        _ => SimLookup::HasClass(r.below(4)),
                    };
                    unresolved = 0;
                    ops.push(Op::Lookup(q))
                }
                3..=5 => {
                    unresolved = 0;
                    ops.push(Op::FindUsable)
                }
                6 => ops.push(Op::Clear),
                9 => {
                    // concurrent readers; the queries are a fixed function of the position so
                    // that no generator randomness is consumed
                    let n = ops.len();
                    let all = [
                        SimLookup::All,
                        SimLookup::GroupIs((n % 4) as u8),
                        SimLookup::HasClass((n % 3) as u64),
                        SimLookup::CounterAtLeast(1),
                        SimLookup::HistoryLonger(0),
                    ];
                    let k = 2 + n % 3;
                    unresolved = 0;
                    ops.push(Op::ParLookup((0..k).map(|j| all[(n + j) % all.len()].clone()).collect()))
                }
                _ => ops.push(Op::Stats),
            }
        }
    }
    // leave nothing dangling that the generator's precondition forbids
    for (slot, open) in qry.iter().enumerate() {
        if *open {
            ops.push(Op::Drain {
                slot,
                ok: Drain::All,
                err: Drain::All,
            });
        }
    }
    // ids far away from zero in a fifth of the histories (own random stream): every id of the
    // history is shifted by the same offset, so ids above u32::MAX and next to u64::MAX occur
    let off = *Rng::new(seed ^ 0x1D0F_F5E7_0000_000D).pick(&[0u64, 0, 0, 0, 1 << 32, (1 << 40) + 1, u64::MAX - 4096, (7 << 32) | 3, 0, 0]);
    let mut case = StoreCase { cfg, ops };
    if off != 0 {
        offset_ids(&mut case, off);
    }
    case
}

fn offset_ids(case: &mut StoreCase, off: u64) {
    let sh = |id: &mut u64| *id = id.wrapping_add(off);
    let spec = |t: &mut TrackSpec| {
        t.id = t.id.wrapping_add(off);
        for a in t.absorbed.iter_mut() {
            *a = a.wrapping_add(off);
        }
    };
    for op in case.ops.iter_mut() {
        match op {
            Op::AddTrack(t) | Op::NewTrack(t) => spec(t),
            Op::Add { id, .. } => sh(id),
            Op::Fetch(v) => v.iter_mut().for_each(sh),
            Op::MergeOwned { dest, src, .. } => {
                sh(dest);
                sh(src);
            }
            Op::MergeExt { dest, src, .. } | Op::MergeNoblock { dest, src, .. } => {
                sh(dest);
                spec(src);
            }
            Op::ForeignIssue { cands, .. } => cands.iter_mut().for_each(spec),
            Op::OwnedIssue { ids, .. } => ids.iter_mut().for_each(sh),
            _ => {}
        }
    }
}
