//! RefTrack / RefStore: the sequential reference model, written from the property
//! statements (C09 C10 C11), sharing no code with /repo.

use super::types::*;
use serde::{Deserialize, Serialize};
use std::collections::{BTreeMap, BTreeSet};

/// What the model needs to know about the universe's configuration.
#[derive(Clone, Debug, Serialize, Deserialize, PartialEq)]
pub struct Cfg {
    pub shards: usize,
    pub cap: usize,
    pub none_mod: u32,
    pub post_mod: u32,
    pub default_status: u8,
    /// cross-shard differential mode (C10): the post-processing hook is group dependent and
    /// distance results are only recorded, to be compared between shard counts
    #[serde(default)]
    pub group_hook: bool,
}

/// How the model decides whether an operation's callbacks failed. The model never
/// predicts WHICH invocation fails or how many invocations there are (that is the
/// implementation's business): for blocking operations it is told whether an
/// injected fault actually fired during the real operation (`observed`), for
/// un-awaited merges executed by workers it predicts from poisoned arguments.
#[derive(Clone, Debug, Default)]
pub struct FaultCtx {
    pub observed: Option<bool>,
    /// construction of external tracks: callbacks cannot fail (not even on poison)
    pub suspended: bool,
}

impl FaultCtx {
    pub fn none() -> Self {
        FaultCtx::default()
    }
    pub fn observed(fired: bool) -> Self {
        FaultCtx { observed: Some(fired), suspended: false }
    }
    pub fn suspended() -> Self {
        FaultCtx { observed: None, suspended: true }
    }
    fn fails(&self, poison: bool) -> bool {
        if self.suspended {
            return false;
        }
        match self.observed {
            Some(b) => b,
            None => poison,
        }
    }
}

pub fn new_track(id: u64, cfg: &Cfg) -> TrackSnap {
    TrackSnap {
        id,
        group: 0,
        counter: 0,
        stamps: vec![],
        status: cfg.default_status,
        poison_merge: false,
        obs: BTreeMap::new(),
        history: vec![id],
        opt_calls: state_digest(&BTreeMap::new()),
    }
}

fn has_poison(v: &[(u32, u32)]) -> bool {
    v.iter().any(|(t, _)| is_poison_tag(*t))
}

fn optimise(t: &mut TrackSnap, class: u64, cfg: &Cfg) {
    let v = t.obs.get_mut(&class).unwrap();
    // stable sort by quality, descending; keep the best `cap`
    v.sort_by(|a, b| {
        let qa = if a.0 == NO_ATTR_TAG { -1.0 } else { f32::from_bits(a.1) };
        let qb = if b.0 == NO_ATTR_TAG { -1.0 } else { f32::from_bits(b.1) };
        qb.partial_cmp(&qa).unwrap()
    });
    v.truncate(cfg.cap);
    t.opt_calls = metric_digest(t);
}

/// the metric state a track must have: one digest per class it holds
pub fn metric_digest(t: &TrackSnap) -> u64 {
    let seen: BTreeMap<u64, u64> = t.obs.iter().map(|(c, v)| (*c, list_digest(v))).collect();
    state_digest(&seen)
}

/// C11: all-or-nothing. Ok(n) = number of change notifications emitted.
pub fn add_observation(
    t: &mut TrackSnap,
    class: u64,
    obs: Option<(u32, f32)>,
    upd: Option<&SimUpd>,
    cfg: &Cfg,
    f: &mut FaultCtx,
) -> Result<u32, ()> {
    let backup = t.clone();
    let mut poison = false;
    if let Some(u) = upd {
        poison |= matches!(u, SimUpd::Poison);
        apply_upd_model(
            u,
            &mut t.group,
            &mut t.counter,
            &mut t.stamps,
            &mut t.status,
            &mut t.poison_merge,
        );
    }
    if let Some((tag, q)) = obs {
        t.obs.entry(class).or_default().push((tag, q.to_bits()));
        poison |= has_poison(&t.obs[&class]);
        optimise(t, class, cfg);
    }
    if f.fails(poison) {
        *t = backup;
        return Err(());
    }
    Ok(1)
}

/// C11: merge `src` into `dest` over `classes`; all-or-nothing; history appended
/// exactly once when the flag is set and a requested class exists in either track.
pub fn merge(
    dest: &mut TrackSnap,
    src: &TrackSnap,
    classes: &[u64],
    hist: bool,
    cfg: &Cfg,
    f: &mut FaultCtx,
) -> Result<u32, ()> {
    let backup = dest.clone();
    let mut poison = src.poison_merge;
    dest.stamps.extend_from_slice(&src.stamps);
    dest.counter += src.counter;
    let mut any_class = false;
    for c in classes {
        let in_dest = dest.obs.contains_key(c);
        let in_src = src.obs.contains_key(c);
        if !in_dest && !in_src {
            continue;
        }
        any_class = true;
        if in_src {
            let sv = src.obs[c].clone();
            dest.obs.entry(*c).or_default().extend(sv);
            // only a class that actually receives observations needs re-optimising
            // for the result to be determined; whether the implementation also
            // re-optimises a class the source lacks is its own business (the
            // harness' optimise is idempotent, so it makes no difference)
            poison |= has_poison(&dest.obs[c]);
        }
        optimise(dest, *c, cfg);
    }
    if hist && any_class {
        dest.history.extend_from_slice(&src.history);
    }
    if f.fails(poison) {
        *dest = backup;
        return Err(());
    }
    Ok(1)
}

/// error kinds the store may report, as far as the model pins them down
#[derive(Clone, Debug, PartialEq, Serialize, Deserialize)]
pub enum Ret {
    Ok,
    /// Ok carrying the removed source (merge_owned with removal)
    OkSrc(TrackSnap),
    OkNone,
    NotFound(u64),
    Same,
    Duplicate(u64),
    /// a callback failed
    CallbackErr,
    /// any error (used where the statement does not pin the kind)
    AnyErr,
    /// an error of a kind the model never predicts
    OtherErr(String),
    Tracks(Vec<TrackSnap>),
    Statuses(Vec<(u64, u8)>),
    Stats(Vec<usize>),
}

impl Ret {
    pub fn is_ok(&self) -> bool {
        matches!(
            self,
            Ret::Ok | Ret::OkSrc(_) | Ret::OkNone | Ret::Tracks(_) | Ret::Statuses(_) | Ret::Stats(_)
        )
    }
    /// does the actual return value `a` satisfy the expectation `self`?
    pub fn accepts(&self, a: &Ret) -> bool {
        // the properties require that failure is REPORTED; which error value is used
        // for which failure is not part of them
        let is_err = |r: &Ret| matches!(r, Ret::NotFound(_) | Ret::Same | Ret::Duplicate(_) | Ret::CallbackErr | Ret::AnyErr | Ret::OtherErr(_));
        if is_err(self) {
            return is_err(a);
        }
        self == a
    }
}

#[derive(Clone, Debug, PartialEq)]
pub struct Pending {
    pub seq: u64,
    pub shard: usize,
    pub dest: u64,
    pub src: TrackSnap,
    /// None = all classes of src
    pub classes: Option<Vec<u64>>,
    pub hist: bool,
}

/// One candidate sequential state: the map, the notification counts, which
/// pending (un-awaited) merges have taken effect and with what result.
#[derive(Clone, Debug, PartialEq)]
pub struct Cand {
    pub tracks: BTreeMap<u64, TrackSnap>,
    pub notes: BTreeMap<u64, u32>,
    pub applied: BTreeMap<u64, Ret>,
}

impl Cand {
    pub fn note(&mut self, id: u64, n: u32) {
        if n > 0 {
            *self.notes.entry(id).or_insert(0) += n;
        }
    }
}

pub fn merge_classes(src: &TrackSnap, classes: &Option<Vec<u64>>) -> Vec<u64> {
    match classes {
        Some(c) if !c.is_empty() => c.clone(),
        _ => src.obs.keys().cloned().collect(),
    }
}

/// Store-level merge of an external track into `dest` (the worker's job).
pub fn store_merge(
    c: &mut Cand,
    dest: u64,
    src: &TrackSnap,
    classes: &Option<Vec<u64>>,
    hist: bool,
    cfg: &Cfg,
    f: &mut FaultCtx,
) -> Ret {
    if !c.tracks.contains_key(&dest) {
        return Ret::NotFound(dest);
    }
    if dest == src.id {
        return Ret::Same;
    }
    let cls = merge_classes(src, classes);
    let d = c.tracks.get_mut(&dest).unwrap();
    match merge(d, src, &cls, hist, cfg, f) {
        Ok(n) => {
            c.note(dest, n);
            Ret::Ok
        }
        Err(()) => Ret::CallbackErr,
    }
}

#[derive(Clone, Debug)]
pub struct Model {
    pub cfg: Cfg,
    pub cands: Vec<Cand>,
    pub pending: Vec<Pending>,
    pub next_seq: u64,
}

impl Model {
    pub fn new(cfg: Cfg) -> Self {
        Model {
            cfg,
            cands: vec![Cand {
                tracks: BTreeMap::new(),
                notes: BTreeMap::new(),
                applied: BTreeMap::new(),
            }],
            pending: vec![],
            next_seq: 0,
        }
    }

    pub fn shard_of(&self, id: u64) -> usize {
        (id as usize) % self.cfg.shards
    }

    fn apply_pending(&self, c: &mut Cand, p: &Pending) {
        let r = store_merge(
            c,
            p.dest,
            &p.src,
            &p.classes,
            p.hist,
            &self.cfg,
            &mut FaultCtx::none(),
        );
        c.applied.insert(p.seq, r);
    }

    /// All states reachable from `c` by letting workers run: per shard a further
    /// prefix of the FIFO of pending merges takes effect. `forced(shard, seq)` says
    /// which pending merges MUST have taken effect (queue order / awaited results).
    pub fn expand_one(&self, c: &Cand, forced: &dyn Fn(&Pending) -> bool) -> Vec<Cand> {
        let mut states = vec![c.clone()];
        let shards: BTreeSet<usize> = self.pending.iter().map(|p| p.shard).collect();
        for s in shards {
            let fifo: Vec<&Pending> = self
                .pending
                .iter()
                .filter(|p| p.shard == s && !c.applied.contains_key(&p.seq))
                .collect();
            if fifo.is_empty() {
                continue;
            }
            // minimal prefix length imposed by `forced`
            let mut min_k = 0;
            for (i, p) in fifo.iter().enumerate() {
                if forced(p) {
                    min_k = i + 1;
                }
            }
            let mut next = vec![];
            for st in &states {
                let mut cur = st.clone();
                if min_k == 0 {
                    next.push(cur.clone());
                }
                for (i, p) in fifo.iter().enumerate() {
                    self.apply_pending(&mut cur, p);
                    if i + 1 >= min_k {
                        next.push(cur.clone());
                    }
                }
            }
            states = next;
        }
        states
    }

    pub fn expand(&self, forced: &dyn Fn(&Pending) -> bool) -> Vec<Cand> {
        let mut out: Vec<Cand> = vec![];
        for c in &self.cands {
            for n in self.expand_one(c, forced) {
                if !out.contains(&n) {
                    out.push(n);
                }
            }
        }
        out
    }

    /// drop pending merges that have taken effect in every candidate
    pub fn prune(&mut self) {
        let done: Vec<u64> = self
            .pending
            .iter()
            .filter(|p| self.cands.iter().all(|c| c.applied.contains_key(&p.seq)))
            .map(|p| p.seq)
            .collect();
        // keep results of awaited futures accessible until the future is consumed:
        // callers remove entries explicitly via `forget`
        let _ = done;
        let mut uniq: Vec<Cand> = vec![];
        for c in self.cands.drain(..) {
            if !uniq.contains(&c) {
                uniq.push(c);
            }
        }
        self.cands = uniq;
    }

    pub fn forget(&mut self, seq: u64) {
        self.pending.retain(|p| p.seq != seq);
        for c in &mut self.cands {
            c.applied.remove(&seq);
        }
        self.prune();
    }

    /// forget every pending merge that has been applied in all candidates and whose
    /// future handle is gone (dropped)
    pub fn forget_settled(&mut self, live_seqs: &BTreeSet<u64>) {
        let settled: Vec<u64> = self
            .pending
            .iter()
            .filter(|p| {
                !live_seqs.contains(&p.seq)
                    && self.cands.iter().all(|c| c.applied.contains_key(&p.seq))
            })
            .map(|p| p.seq)
            .collect();
        for s in settled {
            self.forget(s);
        }
    }

    pub fn unresolved(&self) -> usize {
        self.pending
            .iter()
            .filter(|p| !self.cands.iter().all(|c| c.applied.contains_key(&p.seq)))
            .count()
    }
}

// ---------------------------------------------------------------------------
// distance queries (C10)

/// one expected result element: (from, to, attribute metric bits, pair code bits)
pub type DistElt = (u64, u64, u32, u32);

pub struct DistExpect {
    pub ok: Vec<DistElt>,
    pub errs: usize,
}

/// Expected multiset of a distance query for candidate tracks `cands` against the
/// stored tracks, per the statement of C10.
pub fn expected_distances(
    stored: &BTreeMap<u64, TrackSnap>,
    cands: &[TrackSnap],
    class: u64,
    only_baked: bool,
    cfg: &Cfg,
) -> DistExpect {
    let env = Env::new(cfg.cap, cfg.none_mod, cfg.post_mod);
    let mut ok = vec![];
    let mut errs = 0;
    for c in cands {
        for (id, t) in stored {
            if *id == c.id {
                continue;
            }
            if only_baked && t.status != 0 {
                continue;
            }
            if !compatible_model(c.group, t.group) {
                continue;
            }
            match (c.obs.get(&class), t.obs.get(&class)) {
                (Some(l), Some(r)) => {
                    for (lt, lq) in l {
                        for (rt, rq) in r {
                            if *lt == NO_ATTR_TAG || *rt == NO_ATTR_TAG {
                                ok.push((c.id, *id, u32::MAX, u32::MAX));
                                continue;
                            }
                            if metric_none_model(&env, *lt, *rt) {
                                continue;
                            }
                            if post_drop_model(&env, *lt, *rt) {
                                continue;
                            }
                            let m = (f32::from_bits(*lq) - f32::from_bits(*rq)).abs()
;
                            ok.push((c.id, *id, m.to_bits(), pair_code(*lt, *rt).to_bits()));
                        }
                    }
                }
                _ => errs += 1,
            }
        }
    }
    ok.sort();
    DistExpect { ok, errs }
}
