#!/bin/bash
# ./mutsweep/lane.sh <lane-name> <mutant-dir> <first> <last> [results-file]
#
# Sensitivity sweep with mechanical mutants, entirely outside /repo and /verif:
#   /tmp/ms-<lane>-wt      git worktree of /repo HEAD (mutant applied here)
#   /tmp/ms-<lane>-verif   copy of the /verif workspace whose shadow manifest points at that worktree
# For every mutant: build the simulator against the mutated tree, run the quick checks in
# relevance order until one reports a violation (no minimisation). Only if every check stays
# silent are the 81 unit tests run on the mutated tree (guard off) to find out whether the
# mutant is valid (compiles and passes the suite) - a valid silent mutant is a SURVIVOR and
# has to be triaged by hand (equivalent mutant, outside every property, or a blind spot).
set -u
LANE="$1"; MDIR="$2"; FIRST="$3"; LAST="$4"; RES="${5:-/tmp/ms-$LANE-results.jsonl}"
WT=/tmp/ms-$LANE-wt; V=/tmp/ms-$LANE-verif
export CARGO_NET_OFFLINE=true
if [ ! -d "$WT" ]; then git -C /repo worktree add --detach "$WT" HEAD >/dev/null 2>&1 || exit 2; fi
mkdir -p "$V"
rsync -a --delete --exclude target --exclude 'target-*' --exclude evidence --exclude replays --exclude seeded --exclude benign --exclude mutants --exclude .git --exclude mutsweep /verif/ "$V/"
sed -i "s|/repo/src/lib.rs|$WT/src/lib.rs|" "$V/shadow/Cargo.toml"
sed -i "s|/verif/target|$V/target|" "$V/.cargo/config.toml"
mkdir -p "$V/evidence" "$V/replays"
cp /verif/known_findings.json "$V/"
export SIM_TARGET_DIR="$V/target" VERIF_DIR="$V" SIM_NO_MINIMISE=1 SIM_THREADS="${SIM_THREADS:-8}"
order_for() {  # relevance order of the checks for a source file
  case "$1" in
    src/track/store*|src/track/builder.rs|src/track/utils.rs) echo "C09 C10 C11 C05 C01 C06 C03 C02 C12 C13 C04 C20";;
    src/track.rs) echo "C11 C09 C10 C01 C13 C05 C02 C03 C12 C06 C04 C20";;
    src/track/voting/*) echo "C12 C05 C01 C06 C04 C13 C02 C03 C20 C09 C10 C11";;
    src/trackers/batch.rs|src/trackers/*/batch_api.rs) echo "C06 C01 C05 C03 C04 C12 C13 C02 C20 C09 C10 C11";;
    src/trackers/epoch_db.rs|src/trackers/tracker_api.rs) echo "C03 C01 C04 C06 C05 C02 C12 C13 C20 C09 C10 C11";;
    src/trackers/spatio_temporal_constraints.rs) echo "C20 C02 C12 C01 C03 C04 C05 C06 C13 C09 C10 C11";;
    src/trackers/visual_sort*) echo "C12 C13 C01 C03 C05 C06 C04 C20 C02 C09 C10 C11";;
    *) echo "C02 C01 C03 C13 C12 C20 C05 C04 C06 C09 C10 C11";;
  esac
}
for n in $(seq "$FIRST" "$LAST"); do
  id=$(printf "%04d" "$n"); P="$MDIR/$id.diff"
  [ -f "$P" ] || continue
  grep -q "\"id\": \"$id\"" "$RES" 2>/dev/null && continue
  meta=$(grep "\"id\": \"$id\"" "$MDIR/index.jsonl")
  file=$(echo "$meta" | python3 -c "import sys,json; print(json.load(sys.stdin)['file'])")
  git -C "$WT" checkout -q -- . ; git -C "$WT" apply "$P" 2>/dev/null || { echo "{\"id\": \"$id\", \"verdict\": \"no-apply\"}" >>"$RES"; continue; }
  t0=$(date +%s)
  verdict="silent"; by=""; sig=""
  if ! (cd "$V" && ./build.sh) 2>/dev/null; then
    verdict="no-compile"
  else
    props=$(order_for "$file")
    if [ "${OWNER_ONLY:-0}" = "1" ]; then
      # sensitivity matrix mode: only the check of the property the change was written against
      props=$(echo "$meta" | python3 -c "import sys,json; print(json.load(sys.stdin).get('owner',''))")
    fi
    if [ "${HITRATE:-0}" = "1" ]; then
      # how many runs of the owner's quick batch show a violation (fragility of the detection)
      prop=$(echo "$meta" | python3 -c "import sys,json; print(json.load(sys.stdin).get('owner',''))")
      hits=$(cd "$V" && timeout 1800 "$V/target/release/simcheck" digest --property "$prop" --runs quick 2>/dev/null | grep -vc " held ")
      verdict="hitrate"; by="$prop"; sig="hits=$hits"
      props=""
    fi
    for prop in $props; do
      out=$(cd "$V" && timeout 900 "$V/target/release/simcheck" run --property "$prop" --tier quick 2>&1); rc=$?
      if [ $rc -eq 1 ]; then verdict="caught"; by="$prop"; sig=$(echo "$out" | grep -m1 "^violation: C" | cut -c12-170 | tr -d '"\\'); break; fi
      if [ $rc -ne 0 ]; then verdict="harness-error"; by="$prop"; sig="rc=$rc $(echo "$out" | tail -1 | cut -c1-120 | tr -d '"\\')"; break; fi
    done
  fi
  if [ "$verdict" = "silent" ] && [ "${OWNER_ONLY:-0}" != "1" ]; then
    if (cd "$WT" && timeout 900 cargo test --offline --lib >/tmp/ms-$LANE-test.log 2>&1); then verdict="SURVIVOR"
    else
      # timing-sensitive tests can flake under load: one retry
      if (cd "$WT" && timeout 900 cargo test --offline --lib -- --test-threads 4 >/tmp/ms-$LANE-test.log 2>&1); then verdict="SURVIVOR"; else verdict="killed-by-tests"; fi
    fi
  fi
  t1=$(date +%s)
  echo "$meta" | python3 -c "
import sys,json
m=json.load(sys.stdin); m.update({'verdict':'$verdict','by':'$by','sig':'''$sig''','secs':$((t1-t0))}); print(json.dumps(m))" >>"$RES"
  echo "ms[$LANE] $id $verdict $by $sig ($((t1-t0))s) $file"
done
git -C "$WT" checkout -q -- .
echo "ms[$LANE] done"
