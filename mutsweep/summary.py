#!/usr/bin/env python3
"""mutsweep/summary.py <results.jsonl>... : merges lane result files into mutsweep/results.jsonl
and writes mutsweep/RESULTS.md (counts per verdict / file / operator, survivors with triage notes
taken from mutsweep/triage.json)."""
import json, sys, os, collections
here = os.path.dirname(os.path.abspath(__file__))
TAG = os.environ.get('SWEEP_TAG', '')  # e.g. '-argswap': separate result / triage files per mutant set
rows = {}
for f in sys.argv[1:]:
    for l in open(f):
        try:
            d = json.loads(l)
        except Exception:
            continue
        if 'file' in d:
            rows[d['id']] = d
tri = {}
tp = os.path.join(here, 'triage%s.json' % TAG)
if os.path.exists(tp):
    tri = json.load(open(tp))
rows = [rows[k] for k in sorted(rows)]
with open(os.path.join(here, 'results%s.jsonl' % TAG), 'w') as o:
    for r in rows:
        o.write(json.dumps(r) + "\n")
c = collections.Counter(r['verdict'] for r in rows)
valid = c['caught'] + c['SURVIVOR']
out = ["# Mechanical mutation sweep (see DESIGN.md §11)\n",
       "%d mutants evaluated. caught by a quick check: %d; silent and passing the 81 tests (SURVIVOR): %d; silent but killed by the tests: %d; do not compile: %d; other: %d.\n"
       % (len(rows), c['caught'], c['SURVIVOR'], c['killed-by-tests'], c['no-compile'], len(rows) - c['caught'] - c['SURVIVOR'] - c['killed-by-tests'] - c['no-compile']),
       "Mutants are only known to be *valid* (compile + pass the suite) when no check caught them, so the kill rate is stated over caught + survivors: %d / %d.\n" % (c['caught'], valid),
       "\n## caught, by owning check\n"]
by = collections.Counter(r['by'] for r in rows if r['verdict'] == 'caught')
out.append(", ".join("%s: %d" % kv for kv in sorted(by.items())) + "\n")
out.append("\n## per file (caught / survivors)\n")
pf = collections.defaultdict(lambda: [0, 0])
for r in rows:
    if r['verdict'] == 'caught': pf[r['file']][0] += 1
    if r['verdict'] == 'SURVIVOR': pf[r['file']][1] += 1
for f, (a, b) in sorted(pf.items()):
    out.append("- %s: %d / %d\n" % (f, a, b))
out.append("\n## survivors and their triage\n\n| id | site | mutation | triage |\n|---|---|---|---|\n")
for r in rows:
    if r['verdict'] == 'SURVIVOR':
        out.append("| %s | %s:%s | `%s` → `%s` | %s |\n" % (r['id'], r['file'], r['line'], r['before'].replace('|', '\\|')[:90], r['after'].replace('|', '\\|')[:90], tri.get(r['id'], 'not triaged yet')))
open(os.path.join(here, 'RESULTS%s.md' % TAG), 'w').write("".join(out))
print(c)
