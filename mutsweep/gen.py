#!/usr/bin/env python3
"""Mechanical mutant generator for the sensitivity sweep (see mutsweep/README.md).

usage: gen.py <src-root> <out-dir> [--seed N] [--per-file K]

Writes <out-dir>/<nnnn>.diff (unified diff against the given tree, applies with
`git apply`) plus <out-dir>/index.jsonl (id, file, line, operator, before, after).
Only library code that the claimed properties run through is mutated: test modules,
Python-binding modules, comments, attributes and the cfg(similari_verif) hook lines
are skipped. The sweep itself (lane.sh) decides which mutants survive the 81 tests.
"""
import difflib, json, os, random, re, sys

FILES = [
    "src/track.rs",
    "src/track/store.rs",
    "src/track/store/track_distance.rs",
    "src/track/store/builder.rs",
    "src/track/builder.rs",
    "src/track/utils.rs",
    "src/track/voting/best.rs",
    "src/track/voting/topn.rs",
    "src/trackers/batch.rs",
    "src/trackers/epoch_db.rs",
    "src/trackers/tracker_api.rs",
    "src/trackers/kalman_prediction.rs",
    "src/trackers/spatio_temporal_constraints.rs",
    "src/trackers/sort.rs",
    "src/trackers/sort/simple_api.rs",
    "src/trackers/sort/batch_api.rs",
    "src/trackers/sort/metric.rs",
    "src/trackers/sort/voting.rs",
    "src/trackers/visual_sort.rs",
    "src/trackers/visual_sort/simple_api.rs",
    "src/trackers/visual_sort/batch_api.rs",
    "src/trackers/visual_sort/metric.rs",
    "src/trackers/visual_sort/voting.rs",
    "src/trackers/visual_sort/track_attributes.rs",
    "src/trackers/visual_sort/observation_attributes.rs",
    "src/trackers/visual_sort/options.rs",
    "src/utils/bbox.rs",
    "src/utils/clipping/bbox_own_areas.rs",
    "src/utils/kalman/kalman_2d_box.rs",
]

# (name, regex, replacement) — applied to one occurrence at a time
OPS = [
    ("ror", r" <= ", " < "), ("ror", r" < ", " <= "), ("ror", r" >= ", " > "), ("ror", r"(?<![-=]) > ", " >= "),
    ("ror", r" == ", " != "), ("ror", r" != ", " == "),
    ("ror2", r" <= ", " > "), ("ror2", r" < ", " >= "), ("ror2", r" >= ", " < "), ("ror2", r"(?<![-=]) > ", " <= "),
    ("aor", r" \+ ", " - "), ("aor", r" - ", " + "), ("aor", r" \* ", " / "), ("aor", r" / ", " * "),
    ("aor", r" \+= ", " -= "), ("aor", r" -= ", " += "),
    ("lcr", r" && ", " || "), ("lcr", r" \|\| ", " && "),
    ("const", r"\b0\b(?![.\w])", "1"), ("const", r"\b1\b(?![.\w])", "2"), ("const", r"\b1\b(?![.\w])", "0"), ("const", r"\b2\b(?![.\w])", "1"),
    ("bool", r"\btrue\b", "false"), ("bool", r"\bfalse\b", "true"),
    ("minmax", r"\.min\(", ".max("), ("minmax", r"\.max\(", ".min("),
    ("opt", r"\.is_some\(\)", ".is_none()"), ("opt", r"\.is_none\(\)", ".is_some()"),
    ("opt", r"\.is_ok\(\)", ".is_err()"), ("opt", r"\.is_err\(\)", ".is_ok()"),
    ("opt", r"(?<!!)(\b[\w.()]+)\.is_empty\(\)", r"!\1.is_empty()"),
    ("iter", r"\.rev\(\)", ""), ("iter", r"\.any\(", ".all("), ("iter", r"\.all\(", ".any("),
    ("iter", r"\.first\(\)", ".last()"), ("iter", r"\.last\(\)", ".first()"),
    ("iter", r"\.pop_front\(\)", ".pop_back()"), ("iter", r"\.push_back\(", ".push_front("),
    ("iter", r"\.skip\(1\)", ""), ("iter", r"\.take\(", ".skip("),
    ("flow", r"\bcontinue;", "break;"), ("flow", r"\bbreak;", "continue;"),
    ("neg", r"\bif (?!let\b)(.+) \{$", r"if !(\1) {"),
    ("neg", r"\.filter\(\|([^|]*)\| ", r".filter(|\1| !"),
    ("lock", r"\.write\(\)", ".read()"),
    ("chan", r"bounded\(1\)", "bounded(0)"), ("chan", r"unbounded\(\)", "bounded(1)"),
    ("cmp", r"\.partial_cmp\((&?)(\w+)\)", None),  # handled specially: swap operands
]


def code_mask(lines):
    """True for lines that may be mutated."""
    ok = [True] * len(lines)
    n = len(lines)
    i = 0
    depth_skip_until = -1
    while i < n:
        s = lines[i].strip()
        if s.startswith("#[cfg(test)]"):
            # everything from the first test module on is tests in this code base
            # (test modules are last in each file; verify by brace counting)
            j = i + 1
            while j < n and not re.search(r"\bmod\b|\bfn\b|\buse\b|\bimpl\b", lines[j]):
                j += 1
            if j < n and re.search(r"\bmod\b|\bimpl\b|\bfn\b", lines[j]):
                depth = 0
                k = j
                seen = False
                while k < n:
                    depth += lines[k].count("{") - lines[k].count("}")
                    if "{" in lines[k]:
                        seen = True
                    ok[k] = False
                    if seen and depth <= 0:
                        break
                    k += 1
                for t in range(i, j):
                    ok[t] = False
                i = k + 1
                continue
            else:
                ok[i] = False
                if j < n:
                    ok[j] = False
        if s.startswith('#[cfg(feature = "python")]') or s.startswith("#[cfg(feature = \"python\")]"):
            j = i + 1
            while j < n and lines[j].strip().startswith("#["):
                j += 1
            if j < n and re.search(r"\bmod\b|\bimpl\b|\bfn\b|\bstruct\b", lines[j]) and not lines[j].rstrip().endswith(";"):
                depth = 0
                k = j
                seen = False
                while k < n:
                    depth += lines[k].count("{") - lines[k].count("}")
                    if "{" in lines[k]:
                        seen = True
                    ok[k] = False
                    if seen and depth <= 0:
                        break
                    k += 1
                for t in range(i, j):
                    ok[t] = False
                i = k + 1
                continue
            else:
                for t in range(i, min(j + 1, n)):
                    ok[t] = False
        if s.startswith("//") or s.startswith("#[") or s.startswith("#![") or s.startswith("use ") or s.startswith("pub use "):
            ok[i] = False
        if "similari_verif" in s:
            ok[i] = False
            if i + 1 < n:
                ok[i + 1] = False
        if re.search(r"\b(debug|info|warn|error|trace)!\(", s) or "assert" in s or "unreachable!" in s or "panic!" in s:
            ok[i] = False
        i += 1
    return ok


def strip_strings(line):
    return re.sub(r'"(\\.|[^"\\])*"', lambda m: '"' + "_" * (len(m.group(0)) - 2) + '"', line)


def candidates(path, lines):
    ok = code_mask(lines)
    out = []
    for i, line in enumerate(lines):
        if not ok[i]:
            continue
        code = strip_strings(line)
        if "//" in code:
            code = code[: code.index("//")]
        if not code.strip():
            continue
        for name, rx, rep in OPS:
            for m in re.finditer(rx, code):
                if name == "cmp":
                    # a.partial_cmp(b) -> reverse order by appending .reverse() is a different token; use .map(|o| o.reverse())
                    new = line[: m.end()] + ".map(|o| o.reverse())" + line[m.end():]
                else:
                    piece = re.sub(rx, rep, code[m.start(): m.end()], count=1) if "\\1" in (rep or "") or "(" in rx else rep
                    if "\\1" in (rep or ""):
                        piece = re.sub(rx, rep, code[m.start(): m.end()], count=1)
                    new = line[: m.start()] + piece + line[m.end():]
                if new != line:
                    out.append((i, name, line.rstrip("\n"), new.rstrip("\n")))
        # argument swap: f(a, b) -> f(b, a) for two simple arguments (identifiers, field paths, literals)
        for m in re.finditer(r"\((\s*[&*]?[\w.]+(?:\(\))?\s*),(\s*[&*]?[\w.]+(?:\(\))?\s*)([,)])", code):
            a, b = m.group(1), m.group(2)
            if a.strip() == b.strip():
                continue
            new = line[: m.start()] + "(" + b.strip() + ", " + a.strip() + m.group(3) + line[m.end():]
            if new != line:
                out.append((i, "argswap", line.rstrip("\n"), new.rstrip("\n")))
        # statement deletion: a single-line statement that is a call / assignment, not a binding
        s = code.strip()
        if s.endswith(";") and not re.match(r"(let|return|pub|use|type|const|static|break|continue|fn|mod|struct|enum|impl)\b", s) \
           and s.count("(") == s.count(")") and s.count("{") == s.count("}") and not s.startswith("}") and not s.startswith(".") and not s.startswith(")"):
            out.append((i, "del", line.rstrip("\n"), None))
    return out


def main():
    root, outdir = sys.argv[1], sys.argv[2]
    seed = 1
    per_file = 10 ** 9
    a = sys.argv[3:]
    while a:
        if a[0] == "--seed":
            seed = int(a[1]); a = a[2:]
        elif a[0] == "--per-file":
            per_file = int(a[1]); a = a[2:]
        else:
            raise SystemExit("bad arg " + a[0])
    only = os.environ.get("MUT_ONLY_OPS")
    rng = random.Random(seed)
    os.makedirs(outdir, exist_ok=True)
    index = open(os.path.join(outdir, "index.jsonl"), "w")
    n = 0
    allc = []
    for f in FILES:
        p = os.path.join(root, f)
        lines = open(p).read().split("\n")
        c = candidates(f, lines)
        if only:
            c = [x for x in c if x[1] in only.split(",")]
        rng.shuffle(c)
        # at most one mutant per (line, operator) and per_file per file
        seen = set()
        kept = []
        for x in c:
            k = (x[0], x[1])
            if k in seen:
                continue
            seen.add(k)
            kept.append(x)
        allc.append((f, lines, kept[:per_file]))
    # interleave files so a prefix of the list is already stratified
    order = []
    mx = max(len(k) for _, _, k in allc)
    for r in range(mx):
        for f, lines, kept in allc:
            if r < len(kept):
                order.append((f, lines, kept[r]))
    for f, lines, (i, name, before, after) in order:
        new = list(lines)
        if after is None:
            new[i] = ""
        else:
            new[i] = after
        diff = "".join(difflib.unified_diff([l + "\n" for l in lines], [l + "\n" for l in new], "a/" + f, "b/" + f, n=3))
        # the split/join adds a trailing "\n" artefact on the last (empty) element only; harmless for git apply
        n += 1
        mid = "%04d" % n
        open(os.path.join(outdir, mid + ".diff"), "w").write(diff)
        index.write(json.dumps({"id": mid, "file": f, "line": i + 1, "op": name, "before": before.strip(), "after": (after or "<deleted>").strip()}) + "\n")
    index.close()
    print("generated", n, "mutants in", outdir)


if __name__ == "__main__":
    main()
