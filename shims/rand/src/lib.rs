//! `rand` 0.8 with `thread_rng` replaced: inside a simulated run every value comes
//! from the simulator's scheduler (`Scheduler::next_u64`), so candidate track ids
//! are part of the recorded trace; outside a run it falls back to the real one.
pub use real_rand::*;

pub mod rngs {
    pub use real_rand::rngs::*;
    pub use super::ThreadRng;
}

pub mod prelude {
    pub use real_rand::prelude::*;
    pub use super::{thread_rng, ThreadRng};
}

#[derive(Clone, Debug, Default)]
pub struct ThreadRng {
    _private: (),
}

pub fn thread_rng() -> ThreadRng {
    ThreadRng { _private: () }
}

pub fn random<T>() -> T
where
    real_rand::distributions::Standard: real_rand::distributions::Distribution<T>,
{
    use real_rand::Rng;
    thread_rng().gen()
}

impl real_rand::RngCore for ThreadRng {
    fn next_u32(&mut self) -> u32 {
        self.next_u64() as u32
    }
    fn next_u64(&mut self) -> u64 {
        if similari_verif_rt::in_simulation() {
            similari_verif_rt::rng::next_u64()
        } else {
            real_rand::thread_rng().next_u64()
        }
    }
    fn fill_bytes(&mut self, dest: &mut [u8]) {
        let mut i = 0;
        while i < dest.len() {
            let v = self.next_u64().to_le_bytes();
            let n = (dest.len() - i).min(8);
            dest[i..i + n].copy_from_slice(&v[..n]);
            i += n;
        }
    }
    fn try_fill_bytes(&mut self, dest: &mut [u8]) -> Result<(), real_rand::Error> {
        self.fill_bytes(dest);
        Ok(())
    }
}
