//! Simulation model of the subset of `crossbeam::channel` that Similari uses.
//!
//! A channel is a FIFO queue guarded by a shuttle Mutex with two shuttle Condvars
//! (not-empty / not-full), so every send and recv is a scheduling point decided by
//! the simulator's scheduler, blocking is visible to shuttle's deadlock detector,
//! and disconnect semantics follow crossbeam's contract:
//!   * `send` fails iff all receivers are gone (checked before enqueueing and while
//!     blocked on a full bounded channel);
//!   * `recv` returns queued messages first and fails only when the queue is empty
//!     and all senders are gone.
//! Every operation is appended to the per-run event log with the /repo source line
//! that performed it (`#[track_caller]`).

pub mod channel {
    use similari_verif_rt::log::{self, Kind};
    use similari_verif_rt::sync::{Arc, Condvar, Mutex};
    use std::collections::VecDeque;
    use std::fmt;
    use std::panic::Location;

    struct State<T> {
        queue: VecDeque<T>,
        senders: usize,
        receivers: usize,
        /// messages ever enqueued / dequeued (rendezvous channels wait for their hand-over)
        pushed: u64,
        taken: u64,
    }

    struct Chan<T> {
        id: u32,
        cap: Option<usize>,
        state: Mutex<State<T>>,
        not_empty: Condvar,
        not_full: Condvar,
    }

    pub struct Sender<T> {
        chan: Arc<Chan<T>>,
    }

    pub struct Receiver<T> {
        chan: Arc<Chan<T>>,
    }

    #[derive(PartialEq, Eq, Clone, Copy)]
    pub struct SendError<T>(pub T);

    #[derive(PartialEq, Eq, Clone, Copy, Debug)]
    pub struct RecvError;

    #[derive(PartialEq, Eq, Clone, Copy, Debug)]
    pub enum TryRecvError {
        Empty,
        Disconnected,
    }

    #[derive(PartialEq, Eq, Clone, Copy, Debug)]
    pub enum RecvTimeoutError {
        Timeout,
        Disconnected,
    }

    #[derive(PartialEq, Eq, Clone, Copy)]
    pub enum TrySendError<T> {
        Full(T),
        Disconnected(T),
    }

    impl<T> fmt::Debug for TrySendError<T> {
        fn fmt(&self, f: &mut fmt::Formatter<'_>) -> fmt::Result {
            match self {
                TrySendError::Full(_) => "Full(..)".fmt(f),
                TrySendError::Disconnected(_) => "Disconnected(..)".fmt(f),
            }
        }
    }
    impl<T> fmt::Display for TrySendError<T> {
        fn fmt(&self, f: &mut fmt::Formatter<'_>) -> fmt::Result {
            match self {
                TrySendError::Full(_) => "sending on a full channel".fmt(f),
                TrySendError::Disconnected(_) => "sending on a disconnected channel".fmt(f),
            }
        }
    }
    impl<T: Send> std::error::Error for TrySendError<T> {}

    impl fmt::Display for RecvTimeoutError {
        fn fmt(&self, f: &mut fmt::Formatter<'_>) -> fmt::Result {
            match self {
                RecvTimeoutError::Timeout => "timed out waiting on receive operation".fmt(f),
                RecvTimeoutError::Disconnected => "channel is empty and disconnected".fmt(f),
            }
        }
    }
    impl std::error::Error for RecvTimeoutError {}

    pub struct Iter<'a, T> {
        rx: &'a Receiver<T>,
    }
    impl<T> Iterator for Iter<'_, T> {
        type Item = T;
        fn next(&mut self) -> Option<T> {
            self.rx.recv().ok()
        }
    }
    pub struct TryIter<'a, T> {
        rx: &'a Receiver<T>,
    }
    impl<T> Iterator for TryIter<'_, T> {
        type Item = T;
        fn next(&mut self) -> Option<T> {
            self.rx.try_recv().ok()
        }
    }
    pub struct IntoIter<T> {
        rx: Receiver<T>,
    }
    impl<T> Iterator for IntoIter<T> {
        type Item = T;
        fn next(&mut self) -> Option<T> {
            self.rx.recv().ok()
        }
    }
    impl<T> IntoIterator for Receiver<T> {
        type Item = T;
        type IntoIter = IntoIter<T>;
        fn into_iter(self) -> IntoIter<T> {
            IntoIter { rx: self }
        }
    }

    impl<T> fmt::Debug for SendError<T> {
        fn fmt(&self, f: &mut fmt::Formatter<'_>) -> fmt::Result {
            "SendError(..)".fmt(f)
        }
    }
    impl<T> fmt::Display for SendError<T> {
        fn fmt(&self, f: &mut fmt::Formatter<'_>) -> fmt::Result {
            "sending on a disconnected channel".fmt(f)
        }
    }
    impl<T: Send> std::error::Error for SendError<T> {}
    impl<T> SendError<T> {
        pub fn into_inner(self) -> T {
            self.0
        }
    }

    impl fmt::Display for RecvError {
        fn fmt(&self, f: &mut fmt::Formatter<'_>) -> fmt::Result {
            "receiving on an empty and disconnected channel".fmt(f)
        }
    }
    impl std::error::Error for RecvError {}

    impl fmt::Display for TryRecvError {
        fn fmt(&self, f: &mut fmt::Formatter<'_>) -> fmt::Result {
            match self {
                TryRecvError::Empty => "receiving on an empty channel".fmt(f),
                TryRecvError::Disconnected => {
                    "receiving on an empty and disconnected channel".fmt(f)
                }
            }
        }
    }
    impl std::error::Error for TryRecvError {}

    #[track_caller]
    fn make<T>(cap: Option<usize>) -> (Sender<T>, Receiver<T>) {
        let loc = Location::caller();
        let id = log::new_chan_id();
        log::record(Kind::ChanCreate, id, loc.file(), loc.line());
        let chan = Arc::new(Chan {
            id,
            cap,
            state: Mutex::new(State {
                queue: VecDeque::new(),
                senders: 1,
                receivers: 1,
                pushed: 0,
                taken: 0,
            }),
            not_empty: Condvar::new(),
            not_full: Condvar::new(),
        });
        (Sender { chan: chan.clone() }, Receiver { chan })
    }

    #[track_caller]
    pub fn unbounded<T>() -> (Sender<T>, Receiver<T>) {
        make(None)
    }

    #[track_caller]
    pub fn bounded<T>(cap: usize) -> (Sender<T>, Receiver<T>) {
        make(Some(cap))
    }

    impl<T> Sender<T> {
        #[track_caller]
        pub fn send(&self, msg: T) -> Result<(), SendError<T>> {
            let loc = Location::caller();
            let c = &*self.chan;
            let mut st = c.state.lock().unwrap();
            let mut blocked = false;
            loop {
                if st.receivers == 0 {
                    drop(st);
                    log::record(Kind::SendDisconnected, c.id, loc.file(), loc.line());
                    return Err(SendError(msg));
                }
                match c.cap {
                    Some(cap) if cap > 0 && st.queue.len() >= cap => {
                        if !blocked {
                            blocked = true;
                            log::record(Kind::SendBlocked, c.id, loc.file(), loc.line());
                        }
                        st = c.not_full.wait(st).unwrap();
                    }
                    _ => break,
                }
            }
            st.queue.push_back(msg);
            st.pushed += 1;
            let my = st.pushed;
            log::record(Kind::Send, c.id, loc.file(), loc.line());
            if c.cap == Some(0) {
                // rendezvous: the send completes when a receiver has taken the message
                c.not_empty.notify_one();
                while st.taken < my && st.receivers > 0 {
                    st = c.not_full.wait(st).unwrap();
                }
                return Ok(());
            }
            drop(st);
            c.not_empty.notify_one();
            Ok(())
        }

        #[track_caller]
        pub fn try_send(&self, msg: T) -> Result<(), TrySendError<T>> {
            let loc = Location::caller();
            let c = &*self.chan;
            let mut st = c.state.lock().unwrap();
            if st.receivers == 0 {
                return Err(TrySendError::Disconnected(msg));
            }
            if let Some(cap) = c.cap {
                if st.queue.len() >= cap.max(1) || cap == 0 {
                    return Err(TrySendError::Full(msg));
                }
            }
            st.queue.push_back(msg);
            st.pushed += 1;
            log::record(Kind::Send, c.id, loc.file(), loc.line());
            drop(st);
            c.not_empty.notify_one();
            Ok(())
        }

        pub fn is_full(&self) -> bool {
            match self.chan.cap {
                Some(cap) => self.chan.state.lock().unwrap().queue.len() >= cap,
                None => false,
            }
        }

        pub fn capacity(&self) -> Option<usize> {
            self.chan.cap
        }

        pub fn is_empty(&self) -> bool {
            self.chan.state.lock().unwrap().queue.is_empty()
        }

        pub fn len(&self) -> usize {
            self.chan.state.lock().unwrap().queue.len()
        }
    }

    impl<T> Receiver<T> {
        #[track_caller]
        pub fn recv(&self) -> Result<T, RecvError> {
            let loc = Location::caller();
            let c = &*self.chan;
            let mut st = c.state.lock().unwrap();
            let mut blocked = false;
            loop {
                if let Some(v) = st.queue.pop_front() {
                    st.taken += 1;
                    log::record(Kind::Recv, c.id, loc.file(), loc.line());
                    drop(st);
                    c.not_full.notify_all();
                    return Ok(v);
                }
                if st.senders == 0 {
                    drop(st);
                    log::record(Kind::RecvDisconnected, c.id, loc.file(), loc.line());
                    return Err(RecvError);
                }
                if !blocked {
                    blocked = true;
                    log::record(Kind::RecvBlocked, c.id, loc.file(), loc.line());
                }
                st = c.not_empty.wait(st).unwrap();
            }
        }

        #[track_caller]
        pub fn try_recv(&self) -> Result<T, TryRecvError> {
            let loc = Location::caller();
            let c = &*self.chan;
            let mut st = c.state.lock().unwrap();
            if let Some(v) = st.queue.pop_front() {
                st.taken += 1;
                log::record(Kind::Recv, c.id, loc.file(), loc.line());
                drop(st);
                c.not_full.notify_all();
                return Ok(v);
            }
            if st.senders == 0 {
                Err(TryRecvError::Disconnected)
            } else {
                Err(TryRecvError::Empty)
            }
        }

        /// There is no clock in the simulation: a timed receive returns what is there,
        /// or reports a timeout after giving every other task a chance to run.
        #[track_caller]
        pub fn recv_timeout(&self, _d: std::time::Duration) -> Result<T, RecvTimeoutError> {
            match self.try_recv() {
                Ok(v) => Ok(v),
                Err(TryRecvError::Disconnected) => Err(RecvTimeoutError::Disconnected),
                Err(TryRecvError::Empty) => {
                    similari_verif_rt::thread::yield_now();
                    match self.try_recv() {
                        Ok(v) => Ok(v),
                        Err(TryRecvError::Disconnected) => Err(RecvTimeoutError::Disconnected),
                        Err(TryRecvError::Empty) => Err(RecvTimeoutError::Timeout),
                    }
                }
            }
        }

        /// blocking iterator: ends when the channel is empty and disconnected
        pub fn iter(&self) -> Iter<'_, T> {
            Iter { rx: self }
        }

        /// non-blocking iterator over what is queued right now
        pub fn try_iter(&self) -> TryIter<'_, T> {
            TryIter { rx: self }
        }

        pub fn is_empty(&self) -> bool {
            self.chan.state.lock().unwrap().queue.is_empty()
        }

        pub fn len(&self) -> usize {
            self.chan.state.lock().unwrap().queue.len()
        }
    }

    impl<T> Clone for Sender<T> {
        fn clone(&self) -> Self {
            self.chan.state.lock().unwrap().senders += 1;
            Sender {
                chan: self.chan.clone(),
            }
        }
    }

    impl<T> Clone for Receiver<T> {
        fn clone(&self) -> Self {
            self.chan.state.lock().unwrap().receivers += 1;
            Receiver {
                chan: self.chan.clone(),
            }
        }
    }

    impl<T> Drop for Sender<T> {
        fn drop(&mut self) {
            if std::thread::panicking() {
                // unwinding after a failure: the execution is being torn down and the
                // model locks may already be closed; bookkeeping no longer matters
                return;
            }
            // Never panic in drop: during an unwinding panic shuttle refuses to
            // schedule, and a poisoned model lock must not turn into an abort.
            let last = match self.chan.state.lock() {
                Ok(mut st) => {
                    st.senders -= 1;
                    st.senders == 0
                }
                Err(_) => false,
            };
            if last && !std::thread::panicking() {
                self.chan.not_empty.notify_all();
            }
        }
    }

    impl<T> Drop for Receiver<T> {
        fn drop(&mut self) {
            if std::thread::panicking() {
                return;
            }
            // crossbeam discards queued messages eagerly when the last receiver
            // goes away (list and array flavours both do); mirror that, dropping the
            // messages outside the lock because they may own other channel ends.
            let mut discarded = VecDeque::new();
            let last = match self.chan.state.lock() {
                Ok(mut st) => {
                    st.receivers -= 1;
                    if st.receivers == 0 {
                        std::mem::swap(&mut discarded, &mut st.queue);
                        true
                    } else {
                        false
                    }
                }
                Err(_) => false,
            };
            if last && !std::thread::panicking() {
                self.chan.not_full.notify_all();
            }
            drop(discarded);
        }
    }

    impl<T> fmt::Debug for Sender<T> {
        fn fmt(&self, f: &mut fmt::Formatter<'_>) -> fmt::Result {
            write!(f, "Sender {{ chan: {} }}", self.chan.id)
        }
    }

    impl<T> fmt::Debug for Receiver<T> {
        fn fmt(&self, f: &mut fmt::Formatter<'_>) -> fmt::Result {
            write!(f, "Receiver {{ chan: {} }}", self.chan.id)
        }
    }
}
