#!/bin/bash
# ./benign.sh <patch> [props...] — apply a BEHAVIOUR-PRESERVING change to /repo, run the quick checks
# (all 12 by default), revert. Every check must stay silent (rc=0).
set -u
P="$1"; shift
PROPS="${*:-C01 C02 C03 C04 C05 C06 C09 C10 C11 C12 C13 C20}"
cd /repo || exit 2
git apply --check "$P" 2>/dev/null || { echo "BENIGN $P: patch does not apply"; exit 2; }
git apply "$P"
trap 'git -C /repo checkout -- . ; /verif/build.sh' EXIT
cd /verif
bad=0
for prop in $PROPS; do
  out=$(VERIF_DIR=/tmp/mutant-verif ./check.sh "$prop" quick 2>&1); rc=$?
  if [ $rc -ne 0 ]; then bad=$((bad+1)); echo "BENIGN $(basename $(dirname $P))/$(basename $P) $prop rc=$rc $(echo "$out" | grep -m1 '^violation: C' | cut -c1-200)"; fi
done
echo "BENIGN $P: alarms=$bad"
