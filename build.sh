#!/bin/bash
# Offline build of the simulator against /repo's CURRENT working tree
# (shadow manifest: [lib] path = /repo/src/lib.rs, --cfg similari_verif).
set -u
cd "$(dirname "$0")"
export CARGO_NET_OFFLINE=true
T="${SIM_TARGET_DIR:-/verif/target}"
export CARGO_TARGET_DIR="$T"
mkdir -p "$T"
if ! cargo build --release --offline -p simcheck >"$T/build.log" 2>&1; then
  echo "BUILD-ERROR: simcheck failed to build against /repo (see $T/build.log)" >&2
  grep -E "^error" -A12 "$T/build.log" | head -60 >&2
  exit 2
fi
exit 0
