//! Runtime seam used by /repo when compiled with `--cfg similari_verif`.
//!
//! * `sync` / `thread` re-export shuttle's models of the std primitives, so every
//!   lock / condvar / spawn / join in the library becomes a scheduling point owned
//!   by the simulator's scheduler.
//! * `log` is the per-run event log (thread local: all simulated tasks of a run are
//!   coroutines on one OS thread). Appending to it never draws randomness and never
//!   reads a clock, so logging cannot perturb a schedule.
//! * `probe` is a set of named reach counters.

pub mod sync {
    //! everything `std::sync` offers, as modelled by shuttle (Arc/Weak are std's)
    pub use shuttle::sync::*;
    // not modelled by shuttle; std's versions are usable because all simulated tasks share one
    // OS thread and initialisation closures in this code base do not block
    pub use std::sync::{LazyLock, OnceLock};
}

pub mod thread {
    //! `std::thread` as modelled by shuttle (spawn, JoinHandle, Builder, sleep,
    //! yield_now, current, park, scope, ...)
    // (not a glob: shuttle::thread also exports `Result`, which would shadow the prelude's)
    pub use shuttle::thread::{current, park, park_timeout, sleep, spawn, yield_now, Builder, JoinHandle, Thread, ThreadId};
    // harmless pass-throughs (no scheduling relevance)
    pub use std::thread::{available_parallelism, panicking};

    // `scope` is NOT re-exported from shuttle: shuttle 0.9.3 unblocks the scope's main task
    // unconditionally when the last scoped thread ends, so a main task that is blocked on a
    // lock / condvar / channel *inside* the scope closure is woken spuriously and shuttle's
    // condvar model panics ("should not have been woken while in Waiting status"). The
    // replacement below has std's API and semantics (implicit join of every scoped thread at
    // the end, "a scoped thread panicked" if an un-joined one did) on top of spawn + join.
    use std::marker::PhantomData;
    use std::sync::{Arc as StdArc, Mutex as StdMutex};

    type Slot = StdArc<StdMutex<Option<JoinHandle<()>>>>;

    pub struct Scope<'scope, 'env: 'scope> {
        slots: StdMutex<Vec<Slot>>,
        scope: PhantomData<&'scope mut &'scope ()>,
        env: PhantomData<&'env mut &'env ()>,
    }

    pub struct ScopedJoinHandle<'scope, T> {
        slot: Slot,
        packet: StdArc<StdMutex<Option<T>>>,
        _scope: PhantomData<&'scope ()>,
    }

    impl<'scope, 'env> Scope<'scope, 'env> {
        pub fn spawn<F, T>(&'scope self, f: F) -> ScopedJoinHandle<'scope, T>
        where
            F: FnOnce() -> T + Send + 'scope,
            T: Send + 'scope,
        {
            let packet: StdArc<StdMutex<Option<T>>> = StdArc::new(StdMutex::new(None));
            let p2 = packet.clone();
            let body: Box<dyn FnOnce() + Send + 'scope> = Box::new(move || {
                let v = f();
                *p2.lock().unwrap_or_else(|e| e.into_inner()) = Some(v);
            });
            // SAFETY: `scope` joins every spawned thread before it returns, so nothing borrowed
            // for 'scope is used after it ends (same argument as std's scoped threads)
            let body: Box<dyn FnOnce() + Send + 'static> = unsafe { std::mem::transmute(body) };
            let h = spawn(body);
            let slot: Slot = StdArc::new(StdMutex::new(Some(h)));
            self.slots.lock().unwrap_or_else(|e| e.into_inner()).push(slot.clone());
            ScopedJoinHandle { slot, packet, _scope: PhantomData }
        }
    }

    impl<T> ScopedJoinHandle<'_, T> {
        pub fn join(self) -> std::thread::Result<T> {
            let h = self.slot.lock().unwrap_or_else(|e| e.into_inner()).take();
            if let Some(h) = h {
                h.join()?;
            }
            match self.packet.lock().unwrap_or_else(|e| e.into_inner()).take() {
                Some(v) => Ok(v),
                None => Err(Box::new("scoped thread produced no value")),
            }
        }
        pub fn is_finished(&self) -> bool {
            self.packet.lock().unwrap_or_else(|e| e.into_inner()).is_some()
        }
    }

    pub fn scope<'env, F, T>(f: F) -> T
    where
        F: for<'scope> FnOnce(&'scope Scope<'scope, 'env>) -> T,
    {
        let sc = Scope { slots: StdMutex::new(Vec::new()), scope: PhantomData, env: PhantomData };
        let res = std::panic::catch_unwind(std::panic::AssertUnwindSafe(|| f(&sc)));
        let mut child_panicked = false;
        loop {
            let next = sc.slots.lock().unwrap_or_else(|e| e.into_inner()).pop();
            let Some(slot) = next else { break };
            let h = slot.lock().unwrap_or_else(|e| e.into_inner()).take();
            if let Some(h) = h {
                if h.join().is_err() {
                    child_panicked = true;
                }
            }
        }
        match res {
            Err(e) => std::panic::resume_unwind(e),
            Ok(_) if child_panicked => panic!("a scoped thread panicked"),
            Ok(v) => v,
        }
    }
}

pub fn task_id() -> u32 {
    match shuttle::current::get_current_task() {
        Some(t) => usize::from(t) as u32,
        None => u32::MAX,
    }
}

pub fn in_simulation() -> bool {
    shuttle::current::get_current_task().is_some()
}

pub mod log {
    use std::cell::RefCell;

    #[derive(Clone, Copy, Debug, PartialEq, Eq, Hash)]
    #[repr(u8)]
    pub enum Kind {
        ChanCreate = 0,
        Send = 1,
        Recv = 2,
        RecvDisconnected = 3,
        SendDisconnected = 4,
        OpInvoke = 5,
        OpReturn = 6,
        SendBlocked = 7,
        RecvBlocked = 8,
        Mark = 9,
    }

    #[derive(Clone, Copy, Debug)]
    pub struct Event {
        pub seq: u64,
        pub task: u32,
        pub kind: Kind,
        /// channel id, or op index for OpInvoke/OpReturn, or mark id
        pub obj: u32,
        /// source line in /repo (via #[track_caller]) or 0
        pub line: u32,
        /// hash of the source file name (so two files' equal line numbers differ)
        pub file: u32,
    }

    #[derive(Default)]
    pub struct Log {
        pub events: Vec<Event>,
        pub next_chan: u32,
        pub enabled: bool,
        pub keep: bool,
        pub hash: u64,
        pub count: u64,
    }

    thread_local! {
        static LOG: RefCell<Log> = RefCell::new(Log::default());
    }

    pub fn reset(enabled: bool, keep: bool) {
        LOG.with(|l| {
            let mut l = l.borrow_mut();
            l.events.clear();
            l.next_chan = 0;
            l.enabled = enabled;
            l.keep = keep;
            l.hash = 0xcbf29ce484222325;
            l.count = 0;
        })
    }

    pub fn take() -> (Vec<Event>, u64, u64) {
        LOG.with(|l| {
            let mut l = l.borrow_mut();
            (std::mem::take(&mut l.events), l.hash, l.count)
        })
    }

    pub fn new_chan_id() -> u32 {
        LOG.with(|l| {
            let mut l = l.borrow_mut();
            let id = l.next_chan;
            l.next_chan += 1;
            id
        })
    }

    fn fnv(mut h: u64, v: u64) -> u64 {
        for i in 0..8 {
            h ^= (v >> (i * 8)) & 0xff;
            h = h.wrapping_mul(0x100000001b3);
        }
        h
    }

    pub fn file_hash(s: &str) -> u32 {
        let mut h: u32 = 0x811c9dc5;
        for b in s.bytes() {
            h ^= b as u32;
            h = h.wrapping_mul(0x01000193);
        }
        h
    }

    pub fn record(kind: Kind, obj: u32, file: &str, line: u32) {
        LOG.with(|l| {
            let mut l = l.borrow_mut();
            if !l.enabled {
                return;
            }
            let task = super::task_id();
            let fh = file_hash(file);
            let seq = l.count;
            l.count += 1;
            // the interleaving hash covers (task, kind, source location) in global order
            let mut h = l.hash;
            h = fnv(h, task as u64);
            h = fnv(h, kind as u64);
            h = fnv(h, ((fh as u64) << 32) | line as u64);
            l.hash = h;
            if l.keep {
                l.events.push(Event {
                    seq,
                    task,
                    kind,
                    obj,
                    line,
                    file: fh,
                });
            }
        })
    }

    /// current global sequence number (used to stamp op invoke/return)
    pub fn seq() -> u64 {
        LOG.with(|l| l.borrow().count)
    }
}

pub mod probe {
    use std::cell::RefCell;
    use std::collections::BTreeMap;
    thread_local! {
        static PROBES: RefCell<BTreeMap<&'static str, u64>> = RefCell::new(BTreeMap::new());
    }
    pub fn hit(name: &'static str) {
        add(name, 1)
    }
    pub fn add(name: &'static str, n: u64) {
        PROBES.with(|p| *p.borrow_mut().entry(name).or_insert(0) += n)
    }
    pub fn take() -> BTreeMap<&'static str, u64> {
        PROBES.with(|p| std::mem::take(&mut *p.borrow_mut()))
    }
    pub fn reset() {
        PROBES.with(|p| p.borrow_mut().clear())
    }
}

pub mod rng {
    /// scheduler-owned randomness for code under simulation (candidate track ids)
    pub fn next_u64() -> u64 {
        use shuttle::rand::Rng;
        shuttle::rand::thread_rng().gen::<u64>()
    }
}
