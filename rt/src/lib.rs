//! Runtime seam used by /repo when compiled with `--cfg similari_verif`.
//!
//! * `sync` / `thread` re-export shuttle's models of the std primitives, so every
//!   lock / condvar / spawn / join in the library becomes a scheduling point owned
//!   by the simulator's scheduler.
//! * `log` is the per-run event log (thread local: all simulated tasks of a run are
//!   coroutines on one OS thread). Appending to it never draws randomness and never
//!   reads a clock, so logging cannot perturb a schedule.
//! * `probe` is a set of named reach counters.

pub mod sync {
    //! everything `std::sync` offers, as modelled by shuttle (Arc/Weak are std's)
    pub use shuttle::sync::*;
}

pub mod thread {
    //! `std::thread` as modelled by shuttle (spawn, JoinHandle, Builder, sleep,
    //! yield_now, current, park, scope, ...)
    // (not a glob: shuttle::thread also exports `Result`, which would shadow the prelude's)
    pub use shuttle::thread::{
        current, park, park_timeout, scope, sleep, spawn, yield_now, Builder, JoinHandle, Scope,
        ScopedJoinHandle, Thread, ThreadId,
    };
}

pub fn task_id() -> u32 {
    match shuttle::current::get_current_task() {
        Some(t) => usize::from(t) as u32,
        None => u32::MAX,
    }
}

pub fn in_simulation() -> bool {
    shuttle::current::get_current_task().is_some()
}

pub mod log {
    use std::cell::RefCell;

    #[derive(Clone, Copy, Debug, PartialEq, Eq, Hash)]
    #[repr(u8)]
    pub enum Kind {
        ChanCreate = 0,
        Send = 1,
        Recv = 2,
        RecvDisconnected = 3,
        SendDisconnected = 4,
        OpInvoke = 5,
        OpReturn = 6,
        SendBlocked = 7,
        RecvBlocked = 8,
        Mark = 9,
    }

    #[derive(Clone, Copy, Debug)]
    pub struct Event {
        pub seq: u64,
        pub task: u32,
        pub kind: Kind,
        /// channel id, or op index for OpInvoke/OpReturn, or mark id
        pub obj: u32,
        /// source line in /repo (via #[track_caller]) or 0
        pub line: u32,
        /// hash of the source file name (so two files' equal line numbers differ)
        pub file: u32,
    }

    #[derive(Default)]
    pub struct Log {
        pub events: Vec<Event>,
        pub next_chan: u32,
        pub enabled: bool,
        pub keep: bool,
        pub hash: u64,
        pub count: u64,
    }

    thread_local! {
        static LOG: RefCell<Log> = RefCell::new(Log::default());
    }

    pub fn reset(enabled: bool, keep: bool) {
        LOG.with(|l| {
            let mut l = l.borrow_mut();
            l.events.clear();
            l.next_chan = 0;
            l.enabled = enabled;
            l.keep = keep;
            l.hash = 0xcbf29ce484222325;
            l.count = 0;
        })
    }

    pub fn take() -> (Vec<Event>, u64, u64) {
        LOG.with(|l| {
            let mut l = l.borrow_mut();
            (std::mem::take(&mut l.events), l.hash, l.count)
        })
    }

    pub fn new_chan_id() -> u32 {
        LOG.with(|l| {
            let mut l = l.borrow_mut();
            let id = l.next_chan;
            l.next_chan += 1;
            id
        })
    }

    fn fnv(mut h: u64, v: u64) -> u64 {
        for i in 0..8 {
            h ^= (v >> (i * 8)) & 0xff;
            h = h.wrapping_mul(0x100000001b3);
        }
        h
    }

    pub fn file_hash(s: &str) -> u32 {
        let mut h: u32 = 0x811c9dc5;
        for b in s.bytes() {
            h ^= b as u32;
            h = h.wrapping_mul(0x01000193);
        }
        h
    }

    pub fn record(kind: Kind, obj: u32, file: &str, line: u32) {
        LOG.with(|l| {
            let mut l = l.borrow_mut();
            if !l.enabled {
                return;
            }
            let task = super::task_id();
            let fh = file_hash(file);
            let seq = l.count;
            l.count += 1;
            // the interleaving hash covers (task, kind, source location) in global order
            let mut h = l.hash;
            h = fnv(h, task as u64);
            h = fnv(h, kind as u64);
            h = fnv(h, ((fh as u64) << 32) | line as u64);
            l.hash = h;
            if l.keep {
                l.events.push(Event {
                    seq,
                    task,
                    kind,
                    obj,
                    line,
                    file: fh,
                });
            }
        })
    }

    /// current global sequence number (used to stamp op invoke/return)
    pub fn seq() -> u64 {
        LOG.with(|l| l.borrow().count)
    }
}

pub mod probe {
    use std::cell::RefCell;
    use std::collections::BTreeMap;
    thread_local! {
        static PROBES: RefCell<BTreeMap<&'static str, u64>> = RefCell::new(BTreeMap::new());
    }
    pub fn hit(name: &'static str) {
        add(name, 1)
    }
    pub fn add(name: &'static str, n: u64) {
        PROBES.with(|p| *p.borrow_mut().entry(name).or_insert(0) += n)
    }
    pub fn take() -> BTreeMap<&'static str, u64> {
        PROBES.with(|p| std::mem::take(&mut *p.borrow_mut()))
    }
    pub fn reset() {
        PROBES.with(|p| p.borrow_mut().clear())
    }
}

pub mod rng {
    /// scheduler-owned randomness for code under simulation (candidate track ids)
    pub fn next_u64() -> u64 {
        use shuttle::rand::Rng;
        shuttle::rand::thread_rng().gen::<u64>()
    }
}
